package core

import (
	"fmt"
	"go/constant"
	"go/token"
	"go/types"
	"sort"
	"strings"

	"golang.org/x/tools/go/ssa"
)

// ---------------------------------------------------------------------------
// callee resolution

// CellFn resolves an Alloc that holds a function value: all stores must agree.
func CellFn(a *ssa.Alloc) *ssa.Function {
	var fn *ssa.Function
	if a.Referrers() == nil {
		return nil
	}
	for _, r := range *a.Referrers() {
		if st, ok := r.(*ssa.Store); ok && st.Addr == a {
			var f *ssa.Function
			switch v := st.Val.(type) {
			case *ssa.Function:
				f = v
			case *ssa.MakeClosure:
				f, _ = v.Fn.(*ssa.Function)
			}
			if f == nil || (fn != nil && fn != f) {
				return nil
			}
			fn = f
		}
	}
	return fn
}

// CalleeCandidates: for a call through a function value that is a phi (or a single-assignment chain) of named
// functions, all of them; nil when any possibility is not a known function.
func CalleeCandidates(c *ssa.CallCommon) []*ssa.Function {
	seen := map[ssa.Value]bool{}
	var out []*ssa.Function
	ok := true
	var walk func(v ssa.Value, d int)
	walk = func(v ssa.Value, d int) {
		if !ok || seen[v] {
			return
		}
		seen[v] = true
		if d > 6 {
			ok = false
			return
		}
		switch x := v.(type) {
		case *ssa.Function:
			out = append(out, x)
		case *ssa.Phi:
			for _, e := range x.Edges {
				walk(e, d+1)
			}
		case *ssa.ChangeType:
			walk(x.X, d+1)
		case *ssa.Const:
			if !x.IsNil() {
				ok = false
			}
			// a nil function value panics when called: no effect to account for
		default:
			ok = false
		}
	}
	walk(c.Value, 0)
	if !ok {
		return nil
	}
	return out
}

// LiteralParamBinding: for a parameter of a function literal that is used at exactly one site (go/defer/call of the
// literal itself), the argument it receives there. Otherwise nil.
func LiteralParamBinding(p *ssa.Parameter) ssa.Value {
	f := p.Parent()
	if f == nil || f.Parent() == nil {
		return nil
	}
	idx := -1
	for i, q := range f.Params {
		if q == p {
			idx = i
		}
	}
	if idx < 0 {
		return nil
	}
	var found ssa.Value
	n := 0
	AllInstrs(f.Parent(), func(i ssa.Instruction) {
		ci, ok := i.(ssa.CallInstruction)
		if !ok {
			return
		}
		cc := ci.Common()
		var target *ssa.Function
		switch v := cc.Value.(type) {
		case *ssa.Function:
			target = v
		case *ssa.MakeClosure:
			target, _ = v.Fn.(*ssa.Function)
		}
		if target == f {
			n++
			if idx < len(cc.Args) {
				found = cc.Args[idx]
			}
		}
	})
	// the literal must not be used in any other way (stored, passed on)
	uses := 0
	AllInstrs(f.Parent(), func(i ssa.Instruction) {
		if mc, isMC := i.(*ssa.MakeClosure); isMC {
			if fn, _ := mc.Fn.(*ssa.Function); fn == f {
				return // the creation of the closure is not a use of it
			}
		}
		for _, op := range i.Operands(nil) {
			if op == nil || *op == nil {
				continue
			}
			switch v := (*op).(type) {
			case *ssa.Function:
				if v == f {
					uses++
				}
			case *ssa.MakeClosure:
				if fn, _ := v.Fn.(*ssa.Function); fn == f {
					uses++
				}
			}
		}
	})
	if n != 1 || uses != 1 {
		return nil
	}
	return found
}

// FreeVarBinding returns the value bound to a free variable at the (unique) creation site of its literal.
func FreeVarBinding(fv *ssa.FreeVar) ssa.Value {
	lit := fv.Parent()
	par := lit.Parent()
	if par == nil {
		return nil
	}
	idx := -1
	for i, f := range lit.FreeVars {
		if f == fv {
			idx = i
		}
	}
	var found ssa.Value
	n := 0
	for _, fam := range Family(par) {
		for _, b := range fam.Blocks {
			for _, ins := range b.Instrs {
				if mc, ok := ins.(*ssa.MakeClosure); ok && mc.Fn == lit {
					n++
					found = mc.Bindings[idx]
				}
			}
		}
	}
	if n != 1 {
		return nil
	}
	return found
}

// Callee resolves the function called, through static callees, closures and function cells.
func Callee(c *ssa.CallCommon) *ssa.Function {
	if c.IsInvoke() {
		return nil
	}
	if f := c.StaticCallee(); f != nil {
		return f
	}
	return fnOfValue(c.Value, 0)
}

func fnOfValue(v ssa.Value, depth int) *ssa.Function {
	if depth > 6 {
		return nil
	}
	switch x := v.(type) {
	case *ssa.Function:
		return x
	case *ssa.MakeClosure:
		f, _ := x.Fn.(*ssa.Function)
		return f
	case *ssa.UnOp:
		if x.Op == token.MUL {
			switch a := x.X.(type) {
			case *ssa.Alloc:
				return CellFn(a)
			case *ssa.FreeVar:
				if b := FreeVarBinding(a); b != nil {
					if al, ok := b.(*ssa.Alloc); ok {
						return CellFn(al)
					}
				}
			}
		}
	case *ssa.FreeVar:
		if b := FreeVarBinding(x); b != nil {
			return fnOfValue(b, depth+1)
		}
	case *ssa.ChangeType:
		return fnOfValue(x.X, depth+1)
	}
	return nil
}

// IsCallTo reports whether c statically calls module-relative pkg/recv/name.
func (p *Prog) IsCallTo(c *ssa.CallCommon, rel, recv, name string) bool {
	f := Callee(c)
	if f == nil {
		return false
	}
	return f == p.Fn(rel, recv, name)
}

// CalleeName returns a printable callee name (static or interface method).
func CalleeName(c *ssa.CallCommon) string {
	if c.IsInvoke() {
		return "invoke " + c.Method.FullName()
	}
	if f := Callee(c); f != nil {
		return f.String()
	}
	if b, ok := c.Value.(*ssa.Builtin); ok {
		return "builtin " + b.Name()
	}
	return "dynamic " + c.Value.Name()
}

// FullName of a static callee or "".
func CalleeFull(c *ssa.CallCommon) string {
	if f := Callee(c); f != nil {
		if f.Origin() != nil {
			return f.Origin().String()
		}
		return f.String()
	}
	return ""
}

// AllInstrs iterates over the instructions of fn in block order.
func AllInstrs(fn *ssa.Function, f func(ssa.Instruction)) {
	for _, b := range fn.Blocks {
		for _, ins := range b.Instrs {
			f(ins)
		}
	}
}

// CallsIn lists call instructions (call, go, defer) of fn in block order.
func CallsIn(fn *ssa.Function) []ssa.CallInstruction {
	var out []ssa.CallInstruction
	AllInstrs(fn, func(i ssa.Instruction) {
		if c, ok := i.(ssa.CallInstruction); ok {
			out = append(out, c)
		}
	})
	return out
}

// Returns lists the return instructions of fn.
func Returns(fn *ssa.Function) []*ssa.Return {
	var out []*ssa.Return
	dead := deadRecoverBlock(fn)
	AllInstrs(fn, func(i ssa.Instruction) {
		if r, ok := i.(*ssa.Return); ok && (dead == nil || r.Block() != dead) {
			out = append(out, r)
		}
	})
	return out
}

// RetTuple is one way a function returns: the result values with the phis of the returning block resolved to the
// values arriving from one predecessor (what `return a, b, err` looks like after several returns were merged into
// one, as the normaliser's splice does).
type RetTuple struct {
	Ret  *ssa.Return
	Vals []ssa.Value
	From *ssa.BasicBlock // the predecessor the values arrive from; nil when the results are not phis
}

// ReturnTuples lists the return tuples of fn.
func ReturnTuples(fn *ssa.Function) []RetTuple {
	var out []RetTuple
	for _, r := range Returns(fn) {
		blk := r.Block()
		anyPhi := false
		for _, v := range r.Results {
			if p, ok := v.(*ssa.Phi); ok && p.Block() == blk {
				anyPhi = true
			}
		}
		if !anyPhi {
			out = append(out, RetTuple{r, r.Results, nil})
			continue
		}
		for k, pred := range blk.Preds {
			vals := make([]ssa.Value, len(r.Results))
			for i, v := range r.Results {
				if p, ok := v.(*ssa.Phi); ok && p.Block() == blk {
					vals[i] = p.Edges[k]
				} else {
					vals[i] = v
				}
			}
			out = append(out, RetTuple{r, vals, pred})
		}
	}
	return out
}

// Exit is one way out of a function with its result values resolved: when the returning block's results are phis
// (a single `return x` fed by several assignments, a named result), each incoming edge — followed back through joins
// that only merge values — is an exit of its own.
type Exit struct {
	Ret      *ssa.Return
	Vals     []ssa.Value
	From, To *ssa.BasicBlock // the edge on which the values are decided; nil when the results are not phis
}

// Exits lists the exits of fn (nested phis expanded up to a small depth).
func Exits(fn *ssa.Function) []Exit {
	var out []Exit
	for _, r := range Returns(fn) {
		var expand func(vals []ssa.Value, blk *ssa.BasicBlock, from, to *ssa.BasicBlock, depth int)
		expand = func(vals []ssa.Value, blk *ssa.BasicBlock, from, to *ssa.BasicBlock, depth int) {
			hasPhi := false
			for _, v := range vals {
				if p, ok := v.(*ssa.Phi); ok && p.Block() == blk {
					hasPhi = true
				}
			}
			if !hasPhi || depth > 4 {
				out = append(out, Exit{r, vals, from, to})
				return
			}
			for k, pred := range blk.Preds {
				nv := make([]ssa.Value, len(vals))
				for i, v := range vals {
					if p, ok := v.(*ssa.Phi); ok && p.Block() == blk {
						nv[i] = p.Edges[k]
					} else {
						nv[i] = v
					}
				}
				// keep following only through blocks that do nothing but merge
				pure := true
				for _, in := range pred.Instrs {
					switch in.(type) {
					case *ssa.Phi, *ssa.Jump, *ssa.DebugRef:
					default:
						pure = false
					}
				}
				if pure && len(pred.Preds) > 0 {
					expand(nv, pred, pred, blk, depth+1)
				} else {
					out = append(out, Exit{r, nv, pred, blk})
				}
			}
		}
		expand(r.Results, r.Block(), nil, nil, 0)
	}
	return out
}

// MustPassExit: every path from entry that leaves through e passes one of cuts.
func MustPassExit(fn *ssa.Function, cuts *Cuts, e Exit) bool {
	if e.From == nil {
		return MustPass(fn, cuts, e.Ret)
	}
	if cuts.Edges[Edge{e.From, e.To}] {
		return true
	}
	return MustPass(fn, cuts, e.From.Instrs[len(e.From.Instrs)-1])
}

// CanReachExit: instruction a can be followed by exit e.
func CanReachExit(fn *ssa.Function, a ssa.Instruction, e Exit) bool {
	if e.From == nil {
		return CanReach(fn, a, e.Ret)
	}
	last := e.From.Instrs[len(e.From.Instrs)-1]
	return a == last || CanReach(fn, a, last)
}

// deadRecoverBlock: the recover block go/ssa adds to every function with a defer is entered only when a deferred
// call recovers from a panic. When no deferred call of fn can call recover() (library calls such as Pool.Put,
// Mutex.Unlock, WaitGroup.Done; module functions and literals without a recover() of their own or in their static
// callees), that block — and the return in it — never runs.
func deadRecoverBlock(fn *ssa.Function) *ssa.BasicBlock {
	if fn.Recover == nil {
		return nil
	}
	can := false
	AllInstrs(fn, func(i ssa.Instruction) {
		d, ok := i.(*ssa.Defer)
		if !ok {
			return
		}
		var callee *ssa.Function
		switch v := d.Call.Value.(type) {
		case *ssa.Function:
			callee = v
		case *ssa.MakeClosure:
			callee, _ = v.Fn.(*ssa.Function)
		}
		if d.Call.IsInvoke() || callee == nil {
			can = true
			return
		}
		if mayRecover(callee, map[*ssa.Function]bool{}, 0) {
			can = true
		}
	})
	if can {
		return nil
	}
	return fn.Recover
}

func mayRecover(f *ssa.Function, seen map[*ssa.Function]bool, d int) bool {
	if seen[f] {
		return false
	}
	seen[f] = true
	if !InModule(f) {
		return false // standard library and gnark calls deferred in this code base do not recover on our behalf
	}
	if d > 4 || len(f.Blocks) == 0 {
		return true
	}
	found := false
	AllInstrs(f, func(i ssa.Instruction) {
		ci, ok := i.(ssa.CallInstruction)
		if !ok {
			return
		}
		cc := ci.Common()
		if b, isB := cc.Value.(*ssa.Builtin); isB {
			if b.Name() == "recover" {
				found = true
			}
			return
		}
		if cc.IsInvoke() {
			found = true
			return
		}
		switch v := cc.Value.(type) {
		case *ssa.Function:
			if mayRecover(v, seen, d+1) {
				found = true
			}
		case *ssa.MakeClosure:
			if g, _ := v.Fn.(*ssa.Function); g == nil || mayRecover(g, seen, d+1) {
				found = true
			}
		default:
			found = true
		}
	})
	return found
}

// ---------------------------------------------------------------------------
// constants

func ConstInt(v ssa.Value) (int64, bool) {
	switch x := v.(type) {
	case *ssa.Const:
		if x.Value == nil {
			return 0, false
		}
		if x.Value.Kind() == constant.Int {
			if i, ok := constant.Int64Val(x.Value); ok {
				return i, true
			}
			if u, ok := constant.Uint64Val(x.Value); ok {
				return int64(u), true
			}
		}
	case *ssa.Convert:
		return ConstInt(x.X)
	case *ssa.ChangeType:
		return ConstInt(x.X)
	case *ssa.BinOp:
		a, ok1 := ConstInt(x.X)
		b, ok2 := ConstInt(x.Y)
		if ok1 && ok2 {
			switch x.Op {
			case token.ADD:
				return a + b, true
			case token.SUB:
				return a - b, true
			case token.MUL:
				return a * b, true
			case token.QUO:
				if b != 0 {
					return a / b, true
				}
			case token.SHL:
				return a << uint(b), true
			case token.SHR:
				return a >> uint(b), true
			}
		}
	}
	return 0, false
}

func ConstBool(v ssa.Value) (bool, bool) {
	if c, ok := v.(*ssa.Const); ok && c.Value != nil && c.Value.Kind() == constant.Bool {
		return constant.BoolVal(c.Value), true
	}
	return false, false
}

func IsNilConst(v ssa.Value) bool {
	c, ok := v.(*ssa.Const)
	return ok && c.Value == nil
}

// ---------------------------------------------------------------------------
// canonical paths of pure expressions (go/ssa performs no CSE)

// ParamSpill returns the parameter stored into an Alloc when the Alloc is the
// spill slot of that parameter (its only plain store is the parameter itself).
func ParamSpill(a *ssa.Alloc) *ssa.Parameter {
	if a.Referrers() == nil {
		return nil
	}
	var par *ssa.Parameter
	for _, r := range *a.Referrers() {
		if st, ok := r.(*ssa.Store); ok && st.Addr == a {
			p, ok := st.Val.(*ssa.Parameter)
			if !ok || par != nil {
				return nil
			}
			par = p
		}
	}
	return par
}

// PathOf gives a canonical string for a pure expression; values that are not
// pure expressions over stable leaves are named by their unique register.
func PathOf(v ssa.Value) string {
	return pathOf(v, 0)
}

func pathOf(v ssa.Value, d int) string {
	if v == nil {
		return "<nil>"
	}
	if d > 24 {
		return regName(v)
	}
	switch x := v.(type) {
	case *ssa.Parameter:
		return "p:" + x.Name()
	case *ssa.FreeVar:
		if b := FreeVarBinding(x); b != nil {
			return pathOf(b, d+1)
		}
		return "fv:" + x.Name()
	case *ssa.Global:
		return "g:" + x.Pkg.Pkg.Name() + "." + x.Name()
	case *ssa.Const:
		if x.Value == nil {
			return "nil"
		}
		return "c:" + x.Value.ExactString()
	case *ssa.Function:
		return "fn:" + x.String()
	case *ssa.Builtin:
		return "builtin:" + x.Name()
	case *ssa.Alloc:
		if p := ParamSpill(x); p != nil {
			return "&p:" + p.Name()
		}
		return "&" + regName(x)
	case *ssa.FieldAddr:
		return pathOf(x.X, d+1) + "." + fieldName(x.X.Type(), x.Field)
	case *ssa.Field:
		return pathOf(x.X, d+1) + "." + fieldName(x.X.Type(), x.Field)
	case *ssa.IndexAddr:
		return pathOf(x.X, d+1) + "[" + pathOf(x.Index, d+1) + "]"
	case *ssa.Index:
		return pathOf(x.X, d+1) + "[" + pathOf(x.Index, d+1) + "]"
	case *ssa.UnOp:
		if x.Op == token.MUL {
			return "*(" + pathOf(x.X, d+1) + ")"
		}
		if x.Op == token.ARROW {
			return regName(x)
		}
		return x.Op.String() + "(" + pathOf(x.X, d+1) + ")"
	case *ssa.BinOp:
		return "(" + pathOf(x.X, d+1) + x.Op.String() + pathOf(x.Y, d+1) + ")"
	case *ssa.Convert:
		if wideningInt(x.X.Type(), x.Type()) {
			return pathOf(x.X, d+1)
		}
		return "conv<" + x.Type().String() + ">(" + pathOf(x.X, d+1) + ")"
	case *ssa.ChangeType:
		return pathOf(x.X, d+1)
	case *ssa.Slice:
		return pathOf(x.X, d+1) + "[" + optPath(x.Low, d) + ":" + optPath(x.High, d) + "]"
	case *ssa.Call:
		if b, ok := x.Call.Value.(*ssa.Builtin); ok && (b.Name() == "len" || b.Name() == "cap") {
			return b.Name() + "(" + pathOf(x.Call.Args[0], d+1) + ")"
		}
		return regName(x)
	}
	return regName(v)
}

// wideningInt: integer conversion that cannot lose the value (unsigned->wider, same-signedness->wider-or-equal).
func wideningInt(from, to types.Type) bool {
	fb, ok1 := from.Underlying().(*types.Basic)
	tb, ok2 := to.Underlying().(*types.Basic)
	if !ok1 || !ok2 || fb.Info()&types.IsInteger == 0 || tb.Info()&types.IsInteger == 0 {
		return false
	}
	size := func(b *types.Basic) int {
		switch b.Kind() {
		case types.Int8, types.Uint8:
			return 8
		case types.Int16, types.Uint16:
			return 16
		case types.Int32, types.Uint32:
			return 32
		}
		return 64
	}
	fu := fb.Info()&types.IsUnsigned != 0
	tu := tb.Info()&types.IsUnsigned != 0
	switch {
	case fu == tu:
		return size(tb) >= size(fb)
	case fu && !tu:
		return size(tb) > size(fb) || (size(tb) == 64 && size(fb) <= 32) || size(tb) > size(fb)
	}
	return false
}

func optPath(v ssa.Value, d int) string {
	if v == nil {
		return ""
	}
	return pathOf(v, d+1)
}

func regName(v ssa.Value) string {
	if p := v.Parent(); p != nil {
		return p.Name() + "#" + v.Name()
	}
	return v.Name()
}

func fieldName(t types.Type, i int) string {
	if p, ok := t.Underlying().(*types.Pointer); ok {
		t = p.Elem()
	}
	if s, ok := t.Underlying().(*types.Struct); ok && i < s.NumFields() {
		return s.Field(i).Name()
	}
	return fmt.Sprintf("f%d", i)
}

// StoresTo reports whether fn's family contains a Store (other than parameter
// spills) whose address path equals or is a prefix/extension of addrPath.
func StoresTo(fn *ssa.Function, addrPath string) bool {
	top := fn
	for top.Parent() != nil {
		top = top.Parent()
	}
	found := false
	for _, f := range Family(top) {
		AllInstrs(f, func(i ssa.Instruction) {
			st, ok := i.(*ssa.Store)
			if !ok {
				return
			}
			if a, ok := st.Addr.(*ssa.Alloc); ok && ParamSpill(a) != nil {
				return
			}
			sp := PathOf(st.Addr)
			if sp == addrPath || strings.HasPrefix(addrPath, sp+".") || strings.HasPrefix(addrPath, sp+"[") || strings.HasPrefix(sp, addrPath+".") || strings.HasPrefix(sp, addrPath+"[") {
				found = true
			}
		})
	}
	return found
}

// SameExpr reports whether a and b denote the same value on every execution:
// identical SSA value, or structurally equal pure expressions whose loads are
// from locations never stored to in the function family.
func SameExpr(a, b ssa.Value) bool {
	if a == b {
		return true
	}
	pa, pb := PathOf(a), PathOf(b)
	if pa != pb {
		return false
	}
	return pureStable(a, 0)
}

func pureStable(v ssa.Value, d int) bool {
	if d > 24 {
		return false
	}
	switch x := v.(type) {
	case *ssa.Parameter, *ssa.Const, *ssa.Global, *ssa.Function, *ssa.Alloc:
		return true
	case *ssa.FreeVar:
		if b := FreeVarBinding(x); b != nil {
			return pureStable(b, d+1)
		}
		return true
	case *ssa.FieldAddr:
		return pureStable(x.X, d+1)
	case *ssa.Field:
		return pureStable(x.X, d+1)
	case *ssa.IndexAddr:
		return pureStable(x.X, d+1) && pureStable(x.Index, d+1)
	case *ssa.Index:
		return pureStable(x.X, d+1) && pureStable(x.Index, d+1)
	case *ssa.UnOp:
		if x.Op == token.MUL {
			if !pureStable(x.X, d+1) {
				return false
			}
			if x.Parent() == nil {
				return false
			}
			// single-assignment cell (captured local assigned once): stable
			var cell *ssa.Alloc
			switch a := x.X.(type) {
			case *ssa.Alloc:
				cell = a
			case *ssa.FreeVar:
				cell, _ = FreeVarBinding(a).(*ssa.Alloc)
			}
			if cell != nil {
				n := 0
				for _, r := range Refs(cell) {
					if st, ok := r.(*ssa.Store); ok && st.Addr == ssa.Value(cell) {
						n++
					}
				}
				if n == 1 {
					return true
				}
			}
			return !StoresTo(x.Parent(), PathOf(x.X))
		}
		if x.Op == token.ARROW {
			return false
		}
		return pureStable(x.X, d+1)
	case *ssa.BinOp:
		return pureStable(x.X, d+1) && pureStable(x.Y, d+1)
	case *ssa.Convert:
		return pureStable(x.X, d+1)
	case *ssa.ChangeType:
		return pureStable(x.X, d+1)
	case *ssa.Slice:
		return pureStable(x.X, d+1) && (x.Low == nil || pureStable(x.Low, d+1)) && (x.High == nil || pureStable(x.High, d+1))
	case *ssa.Call:
		if b, ok := x.Call.Value.(*ssa.Builtin); ok && (b.Name() == "len" || b.Name() == "cap") {
			return pureStable(x.Call.Args[0], d+1)
		}
		return true // a register: one value per dynamic instance; PathOf names it by its unique register
	case *ssa.Phi, *ssa.Extract, *ssa.Lookup, *ssa.TypeAssert, *ssa.MakeSlice, *ssa.MakeChan, *ssa.MakeMap:
		return true
	}
	return false
}

// IsLenOf reports whether v is len(x) and returns x.
func IsLenOf(v ssa.Value) (ssa.Value, bool) {
	for {
		switch c := v.(type) {
		case *ssa.Convert:
			v = c.X
			continue
		case *ssa.ChangeType:
			v = c.X
			continue
		}
		break
	}
	if c, ok := v.(*ssa.Call); ok {
		if b, ok := c.Call.Value.(*ssa.Builtin); ok && b.Name() == "len" {
			return c.Call.Args[0], true
		}
	}
	return nil, false
}

// StripConv removes integer conversions / type changes.
func StripConv(v ssa.Value) ssa.Value {
	for {
		switch c := v.(type) {
		case *ssa.Convert:
			v = c.X
		case *ssa.ChangeType:
			v = c.X
		default:
			return v
		}
	}
}

// ---------------------------------------------------------------------------
// CFG reachability with cuts (must-pass-through; edge dominance)

type Edge struct{ From, To *ssa.BasicBlock }

// Cuts is a set of instructions and CFG edges that block a path.
type Cuts struct {
	Instrs map[ssa.Instruction]bool
	Edges  map[Edge]bool
}

func NewCuts() *Cuts { return &Cuts{Instrs: map[ssa.Instruction]bool{}, Edges: map[Edge]bool{}} }

func (c *Cuts) AddInstr(i ssa.Instruction) { c.Instrs[i] = true }
func (c *Cuts) AddEdge(from *ssa.BasicBlock, succ int) {
	if succ < len(from.Succs) {
		c.Edges[Edge{from, from.Succs[succ]}] = true
	}
}
func (c *Cuts) Empty() bool { return len(c.Instrs) == 0 && len(c.Edges) == 0 }

func instrIndex(i ssa.Instruction) int {
	for k, x := range i.Block().Instrs {
		if x == i {
			return k
		}
	}
	return -1
}

// ReachableAvoiding reports whether target can be reached from the start
// instruction `from` (nil = function entry) without executing a cut instruction
// or traversing a cut edge. The start instruction itself is not a cut.
func ReachableAvoiding(fn *ssa.Function, from ssa.Instruction, cuts *Cuts, target ssa.Instruction) bool {
	return reachImpl(fn, from, nil, -1, cuts, target)
}

// ReachableFromEdge: like ReachableAvoiding, starting by taking successor edge succ of block b.
func ReachableFromEdge(fn *ssa.Function, b *ssa.BasicBlock, succ int, cuts *Cuts, target ssa.Instruction) bool {
	return reachImpl(fn, nil, b, succ, cuts, target)
}

func reachImpl(fn *ssa.Function, from ssa.Instruction, eb *ssa.BasicBlock, esucc int, cuts *Cuts, target ssa.Instruction) bool {
	if len(fn.Blocks) == 0 {
		return false
	}
	tb := target.Block()
	ti := instrIndex(target)
	type st struct {
		b    *ssa.BasicBlock
		idx  int
		from *ssa.BasicBlock // the predecessor through which b was entered (nil = unknown)
	}
	start := st{fn.Blocks[0], 0, nil}
	if from != nil {
		start = st{from.Block(), instrIndex(from) + 1, nil}
	}
	if eb != nil {
		if cuts != nil && cuts.Edges[Edge{eb, eb.Succs[esucc]}] {
			return false
		}
		start = st{eb.Succs[esucc], 0, eb}
	}
	type key struct{ b, from *ssa.BasicBlock }
	seen := map[key]bool{}
	work := []st{start}
	first := true
	for len(work) > 0 {
		s := work[len(work)-1]
		work = work[:len(work)-1]
		if s.idx == 0 {
			k := key{s.b, nil}
			if phiDecidedIf(s.b) {
				k.from = s.from // path-sensitive only where the entry edge decides the branch
			}
			if seen[k] {
				continue
			}
			seen[k] = true
		} else if !first {
			continue
		}
		first = false
		blocked := false
		for k := s.idx; k < len(s.b.Instrs); k++ {
			ins := s.b.Instrs[k]
			if s.b == tb && k == ti {
				return true
			}
			if cuts != nil && cuts.Instrs[ins] {
				blocked = true
				break
			}
		}
		if blocked {
			continue
		}
		only := -1
		if s.idx == 0 && s.from != nil {
			only = decidedSucc(s.b, s.from)
		}
		for i, succ := range s.b.Succs {
			if only >= 0 && i != only {
				continue // infeasible: the value that entered through this edge fixes the branch
			}
			if cuts != nil && cuts.Edges[Edge{s.b, succ}] {
				continue
			}
			work = append(work, st{succ, 0, s.b})
		}
	}
	return false
}

// phiDecidedIf: b ends in `if φ ==/!= nil` (or a boolean φ) with φ a phi of b itself.
func phiDecidedIf(b *ssa.BasicBlock) bool {
	_, _, ok := phiIf(b)
	return ok
}

func phiIf(b *ssa.BasicBlock) (phi *ssa.Phi, nilIsTrue bool, ok bool) {
	ifi, isIf := b.Instrs[len(b.Instrs)-1].(*ssa.If)
	if !isIf {
		return nil, false, false
	}
	cmp, isCmp := ifi.Cond.(*ssa.BinOp)
	if !isCmp || (cmp.Op != token.EQL && cmp.Op != token.NEQ) {
		return nil, false, false
	}
	var other ssa.Value
	if p, isPhi := cmp.X.(*ssa.Phi); isPhi && p.Block() == b {
		phi, other = p, cmp.Y
	} else if p, isPhi := cmp.Y.(*ssa.Phi); isPhi && p.Block() == b {
		phi, other = p, cmp.X
	}
	if phi == nil || !IsNilConst(other) {
		return nil, false, false
	}
	// nothing with side effects on the decision between the phis and the branch is required: the phi value is fixed on entry
	return phi, cmp.Op == token.EQL, true
}

// decidedSucc: the only feasible successor of b when entered from pred, or -1.
func decidedSucc(b, pred *ssa.BasicBlock) int {
	phi, nilIsTrue, ok := phiIf(b)
	if !ok {
		return -1
	}
	idx := -1
	n := 0
	for i, p := range b.Preds {
		if p == pred {
			idx = i
			n++
		}
	}
	if idx < 0 || n != 1 {
		return -1
	}
	v := phi.Edges[idx]
	isNil, known := nilness(v, 0)
	if !known {
		isNil, known = nilnessAt(v, pred)
	}
	if !known {
		return -1
	}
	if isNil == nilIsTrue {
		return 0
	}
	return 1
}

// nilnessAt: what a dominating test `v ==/!= nil` says about v in block at (the taken successor of the test has the
// test block as its only predecessor and dominates at).
func nilnessAt(v ssa.Value, at *ssa.BasicBlock) (isNil, known bool) {
	fn := at.Parent()
	for _, b := range fn.Blocks {
		ifi, ok := b.Instrs[len(b.Instrs)-1].(*ssa.If)
		if !ok || b.Succs[0] == b.Succs[1] {
			continue
		}
		cmp, ok := ifi.Cond.(*ssa.BinOp)
		if !ok || (cmp.Op != token.EQL && cmp.Op != token.NEQ) {
			continue
		}
		var other ssa.Value
		switch {
		case cmp.X == v:
			other = cmp.Y
		case cmp.Y == v:
			other = cmp.X
		default:
			continue
		}
		if !IsNilConst(other) {
			continue
		}
		for si, succ := range b.Succs {
			if len(succ.Preds) != 1 || !(succ == at || succ.Dominates(at)) {
				continue
			}
			// on the true edge of ==, or the false edge of !=, v is nil
			nilHere := (cmp.Op == token.EQL) == (si == 0)
			return nilHere, true
		}
	}
	return false, false
}

// nilness: v is known to be nil / known to be non-nil.
func nilness(v ssa.Value, d int) (isNil, known bool) {
	if d > 4 {
		return false, false
	}
	if IsNilConst(v) {
		return true, true
	}
	switch x := v.(type) {
	case *ssa.MakeInterface, *ssa.Alloc, *ssa.MakeSlice, *ssa.MakeMap, *ssa.MakeChan, *ssa.MakeClosure:
		return false, true
	case *ssa.ChangeInterface:
		return nilness(x.X, d+1)
	case *ssa.Call:
		if f := x.Call.StaticCallee(); f != nil && f.Pkg != nil {
			switch f.Pkg.Pkg.Path() + "." + f.Name() {
			case "fmt.Errorf", "errors.New":
				return false, true
			}
		}
	case *ssa.Phi:
		allNil, allNon := true, true
		for _, e := range x.Edges {
			n, k := nilness(e, d+1)
			if !k {
				return false, false
			}
			if n {
				allNon = false
			} else {
				allNil = false
			}
		}
		if allNil {
			return true, true
		}
		if allNon {
			return false, true
		}
	}
	return false, false
}

// MustPass: every path from entry to target passes through a cut.
func MustPass(fn *ssa.Function, cuts *Cuts, target ssa.Instruction) bool {
	if cuts == nil || cuts.Empty() {
		return false
	}
	return !ReachableAvoiding(fn, nil, cuts, target)
}

// PostDominatesEntry: every path from entry to every return passes through one of the instructions.
func PostDominatesEntry(fn *ssa.Function, instrs ...ssa.Instruction) bool {
	c := NewCuts()
	for _, i := range instrs {
		c.AddInstr(i)
	}
	rets := Returns(fn)
	if len(rets) == 0 {
		return false
	}
	for _, r := range rets {
		if !MustPass(fn, c, r) {
			return false
		}
	}
	return true
}

// Precedes: no path leads from `later` to `earlier` (so earlier never executes after later),
// and every path from entry to `later` passes `earlier`.
func Precedes(fn *ssa.Function, earlier, later ssa.Instruction) bool {
	c := NewCuts()
	c.AddInstr(earlier)
	return MustPass(fn, c, later)
}

// CanReach: some path from a to b (a executed first).
func CanReach(fn *ssa.Function, a, b ssa.Instruction) bool {
	return ReachableAvoiding(fn, a, nil, b)
}

// ---------------------------------------------------------------------------
// conditions

// Cmp is a normalised comparison X op Y controlling an If.
type CondEdge struct {
	If    *ssa.If
	Block *ssa.BasicBlock
	Op    token.Token
	X, Y  ssa.Value
}

// Conds lists all If instructions of fn whose condition is a comparison,
// with `!` unfolded into the operator.
func Conds(fn *ssa.Function) []CondEdge {
	var out []CondEdge
	for _, b := range fn.Blocks {
		if len(b.Instrs) == 0 {
			continue
		}
		ifi, ok := b.Instrs[len(b.Instrs)-1].(*ssa.If)
		if !ok {
			continue
		}
		op, x, y, ok := cmpOf(ifi.Cond, false)
		if !ok {
			continue
		}
		out = append(out, CondEdge{ifi, b, op, x, y})
	}
	return out
}

func negate(op token.Token) token.Token {
	switch op {
	case token.EQL:
		return token.NEQ
	case token.NEQ:
		return token.EQL
	case token.LSS:
		return token.GEQ
	case token.GEQ:
		return token.LSS
	case token.GTR:
		return token.LEQ
	case token.LEQ:
		return token.GTR
	}
	return token.ILLEGAL
}

func cmpOf(v ssa.Value, neg bool) (token.Token, ssa.Value, ssa.Value, bool) {
	switch x := v.(type) {
	case *ssa.BinOp:
		switch x.Op {
		case token.EQL, token.NEQ, token.LSS, token.LEQ, token.GTR, token.GEQ:
			op := x.Op
			if neg {
				op = negate(op)
			}
			return op, x.X, x.Y, true
		}
	case *ssa.UnOp:
		if x.Op == token.NOT {
			return cmpOf(x.X, !neg)
		}
	}
	return 0, nil, nil, false
}

// BoolCond unfolds negations of an If condition: returns the underlying value and
// whether the true edge (Succs[0]) corresponds to value==true.
func BoolCond(v ssa.Value) (ssa.Value, bool) {
	pos := true
	for {
		u, ok := v.(*ssa.UnOp)
		if !ok || u.Op != token.NOT {
			return v, pos
		}
		v = u.X
		pos = !pos
	}
}

// EdgeWhere returns, for condition c, the successor index on which `X want Y` holds (want in EQL/NEQ only).
func (c CondEdge) EdgeWhere(want token.Token) int {
	if c.Op == want {
		return 0
	}
	if negate(c.Op) == want {
		return 1
	}
	return -1
}

// ---------------------------------------------------------------------------
// value provenance helpers

// Referrers that are not debug refs.
func Refs(v ssa.Value) []ssa.Instruction {
	r := v.Referrers()
	if r == nil {
		return nil
	}
	var out []ssa.Instruction
	for _, i := range *r {
		if _, ok := i.(*ssa.DebugRef); ok {
			continue
		}
		out = append(out, i)
	}
	return out
}

// LocalCopySource: for `t = local T; *t = *src` (a by-value copy of src), returns src's address.
func LocalCopySource(a *ssa.Alloc) ssa.Value {
	var src ssa.Value
	n := 0
	for _, r := range Refs(a) {
		if st, ok := r.(*ssa.Store); ok && st.Addr == a {
			n++
			if u, ok := st.Val.(*ssa.UnOp); ok && u.Op == token.MUL {
				src = u.X
			}
		}
	}
	if n == 1 {
		return src
	}
	return nil
}

// FlowsTo reports whether value `from` can flow into `to` through def-use chains
// (address arithmetic, loads of locals it was stored to, conversions, phis, calls whose
// result is in retFlow). Used for binding / provenance rules; over-approximate and intra-procedural.
func FlowsTo(from ssa.Value, to ssa.Value, through func(call *ssa.Call, argIdx int) bool) bool {
	return FlowsToVia(from, to, func(call *ssa.Call, argIdx int) (ssa.Value, bool) {
		if through != nil && through(call, argIdx) {
			return call, true
		}
		return nil, false
	})
}

// FlowsToVia is FlowsTo with a callback that names the value a call passes its argument on to (its result, or the
// receiver it sets).
func FlowsToVia(from ssa.Value, to ssa.Value, via func(call *ssa.Call, argIdx int) (ssa.Value, bool)) bool {
	seen := map[ssa.Value]bool{}
	var walk func(v ssa.Value) bool
	walk = func(v ssa.Value) bool {
		if v == to {
			return true
		}
		if seen[v] {
			return false
		}
		seen[v] = true
		for _, r := range Refs(v) {
			switch x := r.(type) {
			case *ssa.Store:
				if x.Val == v {
					// stored into a local: follow loads of that local
					if a, ok := x.Addr.(*ssa.Alloc); ok {
						if walk(a) {
							return true
						}
					} else if base := addrBase(x.Addr); base != nil {
						if walk(base) {
							return true
						}
					}
				}
			case *ssa.Call:
				if via != nil {
					for i, a := range x.Call.Args {
						if a == v {
							if nv, ok := via(x, i); ok && walk(nv) {
								return true
							}
						}
					}
				}
			case ssa.Value:
				switch x.(type) {
				case *ssa.FieldAddr, *ssa.IndexAddr, *ssa.Field, *ssa.Index, *ssa.UnOp, *ssa.Convert, *ssa.ChangeType, *ssa.Phi, *ssa.Slice, *ssa.MakeInterface, *ssa.Extract, *ssa.BinOp:
					if walk(x) {
						return true
					}
				}
			}
		}
		return false
	}
	return walk(from)
}

func addrBase(v ssa.Value) ssa.Value {
	for {
		switch x := v.(type) {
		case *ssa.FieldAddr:
			v = x.X
		case *ssa.IndexAddr:
			v = x.X
		case *ssa.Slice:
			v = x.X
		case *ssa.Alloc:
			return x
		case *ssa.MakeSlice:
			return x
		default:
			return nil
		}
	}
}

// SortedKeys helper.
func SortedKeys[M ~map[string]V, V any](m M) []string {
	out := make([]string, 0, len(m))
	for k := range m {
		out = append(out, k)
	}
	sort.Strings(out)
	return out
}

// ---------------------------------------------------------------------------
// natural loops

type Loop struct {
	Header *ssa.BasicBlock
	Blocks map[*ssa.BasicBlock]bool
}

// Loops returns the natural loops of fn (one per header; back edges merged).
func Loops(fn *ssa.Function) []*Loop {
	byHeader := map[*ssa.BasicBlock]*Loop{}
	var order []*ssa.BasicBlock
	for _, b := range fn.Blocks {
		for _, h := range b.Succs {
			if h.Dominates(b) {
				l := byHeader[h]
				if l == nil {
					l = &Loop{Header: h, Blocks: map[*ssa.BasicBlock]bool{h: true}}
					byHeader[h] = l
					order = append(order, h)
				}
				// nodes that reach b without passing h
				work := []*ssa.BasicBlock{b}
				for len(work) > 0 {
					x := work[len(work)-1]
					work = work[:len(work)-1]
					if l.Blocks[x] {
						continue
					}
					l.Blocks[x] = true
					work = append(work, x.Preds...)
				}
			}
		}
	}
	var out []*Loop
	for _, h := range order {
		out = append(out, byHeader[h])
	}
	return out
}

// OutermostLoop returns the outermost loop containing b, or nil.
func OutermostLoop(loops []*Loop, b *ssa.BasicBlock) *Loop {
	var best *Loop
	for _, l := range loops {
		if l.Blocks[b] && (best == nil || len(l.Blocks) > len(best.Blocks)) {
			best = l
		}
	}
	return best
}

// InnermostLoop returns the innermost loop containing b, or nil.
func InnermostLoop(loops []*Loop, b *ssa.BasicBlock) *Loop {
	var best *Loop
	for _, l := range loops {
		if l.Blocks[b] && (best == nil || len(l.Blocks) < len(best.Blocks)) {
			best = l
		}
	}
	return best
}

// IsMethod reports whether fn is method `name` of a type named typeName declared in a package whose path ends in pkgSuffix.
func IsMethod(fn *ssa.Function, pkgSuffix, typeName, name string) bool {
	if fn == nil {
		return false
	}
	if fn.Origin() != nil {
		fn = fn.Origin()
	}
	if fn.Name() != name || fn.Signature.Recv() == nil {
		return false
	}
	t := fn.Signature.Recv().Type()
	if p, ok := t.(*types.Pointer); ok {
		t = p.Elem()
	}
	n, ok := t.(*types.Named)
	if !ok || n.Obj().Pkg() == nil {
		return false
	}
	return n.Obj().Name() == typeName && strings.HasSuffix(n.Obj().Pkg().Path(), pkgSuffix)
}

// IsFunc reports whether fn is package-level function `name` in a package whose path ends in pkgSuffix.
func IsFunc(fn *ssa.Function, pkgSuffix, name string) bool {
	if fn == nil {
		return false
	}
	if fn.Origin() != nil {
		fn = fn.Origin()
	}
	return fn.Signature.Recv() == nil && fn.Name() == name && fn.Pkg != nil && strings.HasSuffix(fn.Pkg.Pkg.Path(), pkgSuffix)
}

// SourcePath: canonical path of the memory an address denotes, looking through by-value local copies.
func SourcePath(addr ssa.Value) string {
	if a, ok := addr.(*ssa.Alloc); ok {
		if src := LocalCopySource(a); src != nil {
			return PathOf(src)
		}
	}
	return PathOf(addr)
}

// ---------------------------------------------------------------------------
// forward reachability of values (def-use closure)

// ReachFrom computes the set of values that `from` may flow into: through address
// arithmetic, loads, conversions, phis, stores into locals (then loads of those locals),
// and calls accepted by `through` (argument -> result).
func ReachFrom(from []ssa.Value, through func(call *ssa.Call, argIdx int) bool) map[ssa.Value]bool {
	seen := map[ssa.Value]bool{}
	var walk func(v ssa.Value)
	walk = func(v ssa.Value) {
		if v == nil || seen[v] {
			return
		}
		seen[v] = true
		for _, r := range Refs(v) {
			switch x := r.(type) {
			case *ssa.Store:
				if x.Val == v {
					if base := addrBase(x.Addr); base != nil {
						walk(base)
					}
				}
			case *ssa.Call:
				if b, ok := x.Call.Value.(*ssa.Builtin); ok && b.Name() == "append" {
					walk(x)
					continue
				}
				if through != nil {
					for i, a := range x.Call.Args {
						if a == v && through(x, i) {
							walk(x)
						}
					}
				}
			case *ssa.MapUpdate:
				if x.Value == v || x.Key == v {
					walk(x.Map)
				}
			case ssa.Value:
				switch x.(type) {
				case *ssa.FieldAddr, *ssa.IndexAddr, *ssa.Field, *ssa.Index, *ssa.UnOp, *ssa.Convert, *ssa.ChangeType, *ssa.Phi,
					*ssa.Slice, *ssa.MakeInterface, *ssa.Extract, *ssa.BinOp, *ssa.ChangeInterface, *ssa.TypeAssert, *ssa.Lookup, *ssa.Range, *ssa.Next:
					walk(x)
				}
			}
		}
	}
	for _, f := range from {
		walk(f)
	}
	return seen
}

// ---------------------------------------------------------------------------
// finite-outcome evaluation of a decision

// Abstract supplies values for chosen SSA values (e.g. the result of a Cmp call).
type Abstract func(v ssa.Value) (int64, bool)

// EvalInt evaluates an integer/boolean expression over abstract leaves (bool as 0/1).
func EvalInt(v ssa.Value, abs Abstract) (int64, bool) {
	if abs != nil {
		if k, ok := abs(v); ok {
			return k, true
		}
	}
	if k, ok := ConstInt(v); ok {
		if _, isC := v.(*ssa.Const); isC {
			return k, true
		}
	}
	if b, ok := ConstBool(v); ok {
		if b {
			return 1, true
		}
		return 0, true
	}
	switch x := v.(type) {
	case *ssa.Convert:
		return EvalInt(x.X, abs)
	case *ssa.ChangeType:
		return EvalInt(x.X, abs)
	case *ssa.UnOp:
		a, ok := EvalInt(x.X, abs)
		if !ok {
			return 0, false
		}
		switch x.Op {
		case token.NOT:
			return 1 - a, true
		case token.SUB:
			return -a, true
		}
	case *ssa.BinOp:
		a, ok1 := EvalInt(x.X, abs)
		b, ok2 := EvalInt(x.Y, abs)
		if !ok1 || !ok2 {
			return 0, false
		}
		bi := func(c bool) (int64, bool) {
			if c {
				return 1, true
			}
			return 0, true
		}
		switch x.Op {
		case token.EQL:
			return bi(a == b)
		case token.NEQ:
			return bi(a != b)
		case token.LSS:
			return bi(a < b)
		case token.LEQ:
			return bi(a <= b)
		case token.GTR:
			return bi(a > b)
		case token.GEQ:
			return bi(a >= b)
		case token.ADD:
			return a + b, true
		case token.SUB:
			return a - b, true
		case token.MUL:
			return a * b, true
		case token.AND:
			return a & b, true
		case token.OR:
			return a | b, true
		}
	}
	return 0, false
}

// EvalOnPath evaluates v at the end of a path of blocks (as returned by Walk): phis take the value arriving from
// the block the path came through.
func EvalOnPath(path []*ssa.BasicBlock, v ssa.Value, abs Abstract) (int64, bool) {
	phiVals := map[ssa.Value]int64{}
	abs2 := func(x ssa.Value) (int64, bool) {
		if k, ok := phiVals[x]; ok {
			return k, true
		}
		if abs != nil {
			return abs(x)
		}
		return 0, false
	}
	for i := 1; i < len(path); i++ {
		b, from := path[i], path[i-1]
		idx := -1
		for k, p := range b.Preds {
			if p == from {
				idx = k
			}
		}
		if idx < 0 {
			continue
		}
		vals := map[ssa.Value]int64{}
		for _, in := range b.Instrs {
			phi, ok := in.(*ssa.Phi)
			if !ok {
				break
			}
			if k, ok := EvalInt(phi.Edges[idx], abs2); ok {
				vals[phi] = k
			}
		}
		for k, x := range vals {
			phiVals[k] = x
		}
	}
	return EvalInt(v, abs2)
}

// Walk follows the CFG of a loop-free decision from entry, deciding every If through abs.
// It returns the terminating Return, the blocks visited, or a reason it could not decide.
func Walk(fn *ssa.Function, abs Abstract) (*ssa.Return, []*ssa.BasicBlock, string) {
	return WalkFrom(fn.Blocks[0], abs)
}

// WalkFrom is Walk starting at block b (the decision slice after the compared value is produced).
func WalkFrom(b *ssa.BasicBlock, abs Abstract) (*ssa.Return, []*ssa.BasicBlock, string) {
	var path []*ssa.BasicBlock
	seen := map[*ssa.BasicBlock]bool{}
	phiVals := map[ssa.Value]int64{}
	phiNil := map[ssa.Value]bool{} // pointer/interface phis whose value on this path is known nil (true) or non-nil (false)
	abs2 := func(v ssa.Value) (int64, bool) {
		if k, ok := phiVals[v]; ok {
			return k, true
		}
		// x == nil / x != nil for a value whose nil-ness is known on this path
		if bo, ok := v.(*ssa.BinOp); ok && (bo.Op == token.EQL || bo.Op == token.NEQ) {
			x, y := bo.X, bo.Y
			if IsNilConst(x) {
				x, y = y, x
			}
			if IsNilConst(y) {
				isNil, known := phiNil[x]
				if !known {
					isNil, known = nilness(x, 0)
				}
				if known {
					if (bo.Op == token.EQL) == isNil {
						return 1, true
					}
					return 0, true
				}
			}
		}
		if abs != nil {
			return abs(v)
		}
		return 0, false
	}
	enter := func(from, to *ssa.BasicBlock) {
		idx := -1
		for i, p := range to.Preds {
			if p == from {
				idx = i
			}
		}
		if idx < 0 {
			return
		}
		vals := map[ssa.Value]int64{}
		for _, ins := range to.Instrs {
			phi, ok := ins.(*ssa.Phi)
			if !ok {
				break
			}
			if k, ok := EvalInt(phi.Edges[idx], abs2); ok {
				vals[phi] = k
			} else {
				delete(phiVals, phi)
			}
			delete(phiNil, phi)
			e := phi.Edges[idx]
			if n, known := phiNil[e]; known {
				phiNil[phi] = n
			} else if n, known := nilness(e, 0); known {
				phiNil[phi] = n
			}
		}
		for k, v := range vals {
			phiVals[k] = v
		}
	}
	for steps := 0; steps < 512; steps++ {
		if seen[b] {
			return nil, path, "loop on the decision path"
		}
		seen[b] = true
		path = append(path, b)
		switch x := b.Instrs[len(b.Instrs)-1].(type) {
		case *ssa.Return:
			return x, path, ""
		case *ssa.Jump:
			enter(b, b.Succs[0])
			b = b.Succs[0]
		case *ssa.If:
			k, ok := EvalInt(x.Cond, abs2)
			if !ok {
				return nil, path, "branch on a value outside the abstract outcome: " + x.Cond.String()
			}
			nb := b.Succs[1]
			if k != 0 {
				nb = b.Succs[0]
			}
			enter(b, nb)
			b = nb
		case *ssa.Panic:
			return nil, path, "panic"
		default:
			return nil, path, "unexpected terminator"
		}
	}
	return nil, path, "too many steps"
}
