// Package core loads /repo's current working tree (type-checked syntax + SSA)
// and provides the obligation/evidence machinery shared by all rules.
package core

import (
	"fmt"
	"go/ast"
	"go/constant"
	"go/token"
	"go/types"
	"os"
	"path/filepath"
	"sort"
	"strings"

	"golang.org/x/tools/go/packages"
	"golang.org/x/tools/go/ssa"
	"golang.org/x/tools/go/ssa/ssautil"
)

// Mod is the module path of the analysed repository.
const Mod = "github.com/crate-crypto/go-ipa"

// Config is one build configuration of the matrix (DESIGN §2).
type Config struct {
	Name   string
	GOARCH string
	Tags   string
}

var Configs = []Config{
	{"amd64", "amd64", ""},
	{"amd64+noadx", "amd64", "noadx"},
	{"amd64+amd64_adx", "amd64", "amd64_adx"},
	{"arm64", "arm64", ""},
	{"386", "386", ""},
}

func ConfigByName(n string) (Config, bool) {
	for _, c := range Configs {
		if c.Name == n {
			return c, true
		}
	}
	return Config{}, false
}

// Prog is the loaded program.
type Prog struct {
	Dir    string
	Config Config
	Fset   *token.FileSet
	All    []*packages.Package          // every package (module + deps)
	Pkgs   map[string]*packages.Package // module packages by import path
	SSA    *ssa.Program
	SPkgs  map[string]*ssa.Package // module ssa packages by import path

	declOf map[*types.Func]*ast.FuncDecl
	fileOf map[*ast.File]*packages.Package
}

// Load type-checks ./... in dir under cfg and builds SSA for the whole program.
func Load(dir string, cfg Config) (*Prog, error) {
	env := append(os.Environ(), "GOFLAGS=-mod=mod", "GOPROXY=off", "GOSUMDB=off", "GOTOOLCHAIN=local", "GOWORK=off", "CGO_ENABLED=0", "GOOS=linux", "GOARCH="+cfg.GOARCH)
	pc := &packages.Config{
		Mode: packages.LoadAllSyntax,
		Dir:  dir,
		Env:  env,
	}
	if cfg.Tags != "" {
		pc.BuildFlags = []string{"-tags=" + cfg.Tags}
	}
	roots, err := packages.Load(pc, "./...")
	if err != nil {
		return nil, fmt.Errorf("load: %w", err)
	}
	var errs []string
	packages.Visit(roots, nil, func(p *packages.Package) {
		for _, e := range p.Errors {
			errs = append(errs, e.Error())
		}
	})
	if len(errs) > 0 {
		sort.Strings(errs)
		if len(errs) > 8 {
			errs = errs[:8]
		}
		return nil, fmt.Errorf("type-check/load errors: %s", strings.Join(errs, "; "))
	}
	p := &Prog{Dir: dir, Config: cfg, Pkgs: map[string]*packages.Package{}, SPkgs: map[string]*ssa.Package{},
		declOf: map[*types.Func]*ast.FuncDecl{}, fileOf: map[*ast.File]*packages.Package{}}
	packages.Visit(roots, nil, func(pk *packages.Package) {
		p.All = append(p.All, pk)
		if pk.PkgPath == Mod || strings.HasPrefix(pk.PkgPath, Mod+"/") {
			p.Pkgs[pk.PkgPath] = pk
		}
	})
	if len(p.Pkgs) < 9 {
		return nil, fmt.Errorf("expected >= 9 packages of %s, loaded %d", Mod, len(p.Pkgs))
	}
	if len(roots) == 0 {
		return nil, fmt.Errorf("no packages matched ./...")
	}
	p.Fset = roots[0].Fset
	prog, spkgs := ssautil.AllPackages(roots, ssa.InstantiateGenerics)
	_ = spkgs
	prog.Build()
	p.SSA = prog
	for fn := range ssautil.AllFunctions(prog) {
		if InModule(fn) {
			unspillDeferredResults(fn)
			canonicalArithmetic(fn)
			if os.Getenv("VERIF_NO_EXITS") == "" {
				materialiseExits(fn)
			}
		}
	}
	if len(ExitErrors) > 0 {
		return nil, fmt.Errorf("exit materialisation: %s", strings.Join(ExitErrors, "; "))
	}
	for path, pk := range p.Pkgs {
		sp := prog.Package(pk.Types)
		if sp == nil {
			return nil, fmt.Errorf("no SSA package for %s", path)
		}
		p.SPkgs[path] = sp
		for _, f := range pk.Syntax {
			p.fileOf[f] = pk
			for _, d := range f.Decls {
				if fd, ok := d.(*ast.FuncDecl); ok {
					if obj, ok := pk.TypesInfo.Defs[fd.Name].(*types.Func); ok {
						p.declOf[obj] = fd
					}
				}
			}
		}
	}
	return p, nil
}

func pkgPath(rel string) string {
	if rel == "" || rel == "." {
		return Mod
	}
	return Mod + "/" + rel
}

// Pkg returns the module package with the given module-relative path ("" = root).
func (p *Prog) Pkg(rel string) *packages.Package { return p.Pkgs[pkgPath(rel)] }

// Fn resolves an anchor (module-relative package, receiver type name or "", function name).
// It returns nil when the anchor no longer resolves.
func (p *Prog) Fn(rel, recv, name string) *ssa.Function {
	f := p.fn0(rel, recv, name)
	if f != nil && InlinedAway[funcKeyOf(f)] {
		return nil // a helper whose signature is not the inventory's: its calls were inlined, it is no anchor any more
	}
	return f
}

func (p *Prog) fn0(rel, recv, name string) *ssa.Function {
	sp := p.SPkgs[pkgPath(rel)]
	if sp == nil {
		return nil
	}
	if recv == "" {
		return sp.Func(name)
	}
	tn, ok := sp.Pkg.Scope().Lookup(recv).(*types.TypeName)
	if !ok {
		return nil
	}
	t := tn.Type()
	if al, ok := t.(*types.Alias); ok {
		t = types.Unalias(al)
	}
	for _, T := range []types.Type{types.NewPointer(t), t} {
		ms := p.SSA.MethodSets.MethodSet(T)
		for i := 0; i < ms.Len(); i++ {
			sel := ms.At(i)
			if sel.Obj().Name() == name {
				if f, ok := sel.Obj().(*types.Func); ok {
					if fv := p.SSA.FuncValue(f); fv != nil {
						return fv
					}
				}
			}
		}
	}
	return nil
}

// Global resolves a package-level variable.
func (p *Prog) Global(rel, name string) *ssa.Global {
	sp := p.SPkgs[pkgPath(rel)]
	if sp == nil {
		return nil
	}
	return sp.Var(name)
}

// Decl returns the syntax of a declared function (nil for literals / synthetic).
func (p *Prog) Decl(fn *ssa.Function) *ast.FuncDecl {
	if fn == nil {
		return nil
	}
	if obj, ok := fn.Object().(*types.Func); ok {
		return p.declOf[obj]
	}
	return nil
}

// Info returns the types.Info covering a function of the module.
func (p *Prog) Info(fn *ssa.Function) *types.Info {
	if fn == nil || fn.Pkg == nil {
		return nil
	}
	if pk := p.Pkgs[fn.Pkg.Pkg.Path()]; pk != nil {
		return pk.TypesInfo
	}
	return nil
}

// Pos renders a position relative to the repository root.
func (p *Prog) Pos(pos token.Pos) string {
	if !pos.IsValid() {
		return "-"
	}
	ps := p.Fset.Position(pos)
	if rel, err := filepath.Rel(p.Dir, ps.Filename); err == nil && !strings.HasPrefix(rel, "..") {
		return fmt.Sprintf("%s:%d:%d", rel, ps.Line, ps.Column)
	}
	return fmt.Sprintf("%s:%d:%d", ps.Filename, ps.Line, ps.Column)
}

// InModule reports whether fn belongs to the analysed module (helper package included).
func InModule(fn *ssa.Function) bool {
	for fn != nil && fn.Parent() != nil {
		fn = fn.Parent()
	}
	if fn == nil || fn.Pkg == nil {
		if fn != nil && fn.Origin() != nil && fn.Origin().Pkg != nil {
			pp := fn.Origin().Pkg.Pkg.Path()
			return pp == Mod || strings.HasPrefix(pp, Mod+"/")
		}
		return false
	}
	pp := fn.Pkg.Pkg.Path()
	return pp == Mod || strings.HasPrefix(pp, Mod+"/")
}

// TopFuncs returns every top-level (non-literal) function and method with a body
// that is declared in a module package, sorted by name.
func (p *Prog) TopFuncs() []*ssa.Function {
	var out []*ssa.Function
	seen := map[*ssa.Function]bool{}
	for fn := range ssautil.AllFunctions(p.SSA) {
		if fn.Parent() != nil || !InModule(fn) || seen[fn] {
			continue
		}
		if fn.Synthetic != "" && !strings.HasPrefix(fn.Synthetic, "package initializer") {
			continue // wrappers, bound methods, thunks: analysed through their targets
		}
		if InlinedAway[funcKeyOf(fn)] {
			continue // a new helper whose every call was inlined into its callers (core/normalize.go)
		}
		seen[fn] = true
		out = append(out, fn)
	}
	sort.Slice(out, func(i, j int) bool { return out[i].String() < out[j].String() })
	return out
}

// funcKeyOf: the inventory key (see FuncKey) of an SSA function.
func funcKeyOf(fn *ssa.Function) string {
	if fn.Pkg == nil {
		return ""
	}
	recv := ""
	if r := fn.Signature.Recv(); r != nil {
		t := r.Type()
		if p, ok := t.(*types.Pointer); ok {
			t = p.Elem()
		}
		if n, ok := t.(*types.Named); ok {
			recv = n.Obj().Name() + "."
		}
	}
	return fn.Pkg.Pkg.Path() + "." + recv + fn.Name()
}

// Family returns fn and all function literals nested in it.
func Family(fn *ssa.Function) []*ssa.Function {
	out := []*ssa.Function{fn}
	for _, a := range fn.AnonFuncs {
		if !anonLive(fn, a) {
			continue // never called, stored or passed on (e.g. what is left of a local closure whose calls were inlined): dead code
		}
		out = append(out, Family(a)...)
	}
	return out
}

// anonLive: some instruction of the parent uses the literal (or a closure made from it).
func anonLive(parent, a *ssa.Function) bool {
	for _, b := range parent.Blocks {
		for _, in := range b.Instrs {
			if mc, ok := in.(*ssa.MakeClosure); ok && mc.Fn == ssa.Value(a) {
				if rs := mc.Referrers(); rs != nil && len(*rs) > 0 {
					return true
				}
				continue
			}
			for _, op := range in.Operands(nil) {
				if op != nil && *op == ssa.Value(a) {
					return true
				}
			}
		}
	}
	return false
}

// FnName is a stable, position-free name for a function ("pkg.(*T).M", literals as parent$n).
func FnName(fn *ssa.Function) string {
	if fn == nil {
		return "<nil>"
	}
	s := fn.String()
	s = strings.ReplaceAll(s, Mod+"/", "")
	return strings.ReplaceAll(s, Mod+".", "multiproof.")
}

// unspillDeferredResults: in a function with a defer, go/ssa compiles `return a, b` as stores of a and b into result
// cells, rundefers, loads of the cells, return. When no deferred literal can touch those cells (none captures them),
// what is returned is what was stored: the Return is rewritten to name the stored values directly, so that rules
// looking at returned values see the same thing with and without a `defer` in the function.
func unspillDeferredResults(fn *ssa.Function) {
	if fn.Recover == nil {
		return
	}
	for _, b := range fn.Blocks {
		if b == fn.Recover || len(b.Instrs) == 0 {
			continue
		}
		ret, ok := b.Instrs[len(b.Instrs)-1].(*ssa.Return)
		if !ok {
			continue
		}
		// position of rundefers in this block
		rd := -1
		for i, in := range b.Instrs {
			if _, isRD := in.(*ssa.RunDefers); isRD {
				rd = i
			}
		}
		if rd < 0 {
			continue
		}
		for k, rv := range ret.Results {
			ld, isLd := rv.(*ssa.UnOp)
			if !isLd || ld.Op != token.MUL || ld.Block() != b {
				continue
			}
			cell, isCell := ld.X.(*ssa.Alloc)
			if !isCell {
				continue
			}
			// the cell is only stored to and loaded from (no literal captures it, no address escapes)
			plain := true
			for _, r := range Refs(cell) {
				switch x := r.(type) {
				case *ssa.Store:
					if x.Addr != ssa.Value(cell) {
						plain = false
					}
				case *ssa.UnOp:
				case *ssa.DebugRef:
				default:
					plain = false
				}
			}
			if !plain {
				continue
			}
			// the last store into the cell before rundefers, in this block
			var val ssa.Value
			for i := 0; i < rd; i++ {
				if st, isSt := b.Instrs[i].(*ssa.Store); isSt && st.Addr == ssa.Value(cell) {
					val = st.Val
				}
			}
			if val != nil {
				ret.Results[k] = val
			}
		}
	}
}

// canonicalArithmetic writes shifts by a constant and masks with 2^k-1 of index and size arithmetic as the
// multiplication, division and remainder they stand for (x<<k = x*2^k, x>>k = x/2^k, x&(2^k-1) = x%2^k; for signed
// operands these are the sizes, counts and indices of the module, which are never negative), so that the rules'
// linear and polynomial forms read `len(x)>>1`, `j>>6` and `j&63` like `len(x)/2`, `j/64` and `j%64`. The limb
// arithmetic of the two field packages is left as written: there the shifts are the subject of the rules.
func canonicalArithmetic(fn *ssa.Function) {
	if fn.Pkg == nil || os.Getenv("VERIF_NO_CANON") != "" {
		return
	}
	path := fn.Pkg.Pkg.Path()
	if strings.HasSuffix(path, "/fr") || strings.HasSuffix(path, "/fp") {
		return
	}
	for _, b := range fn.Blocks {
		for _, in := range b.Instrs {
			bo, ok := in.(*ssa.BinOp)
			if !ok {
				continue
			}
			bt, isB := bo.X.Type().Underlying().(*types.Basic)
			if !isB || bt.Info()&types.IsInteger == 0 {
				continue
			}
			k, isK := bo.Y.(*ssa.Const)
			if !isK || k.Value == nil {
				continue
			}
			kv, exact := constant.Int64Val(constant.ToInt(k.Value))
			if !exact {
				continue
			}
			switch bo.Op {
			case token.SHL, token.SHR:
				if kv < 1 || kv > 30 {
					continue
				}
				if bo.Op == token.SHL {
					bo.Op = token.MUL
				} else {
					bo.Op = token.QUO
				}
				bo.Y = ssa.NewConst(constant.MakeInt64(1<<uint(kv)), bo.X.Type())
			case token.AND:
				if kv < 1 || kv > 1<<30 || (kv+1)&kv != 0 {
					continue
				}
				bo.Op = token.REM
				bo.Y = ssa.NewConst(constant.MakeInt64(kv+1), bo.X.Type())
			}
		}
	}
}
