package core

// Flag threading. In single-exit code every step after the first is guarded by the flag the steps before it may
// have raised (`if err == nil { ... }`, `if ok { ... }`), and the guards are decided by where control comes from:
// after `err = errors.New(...)` every later guard is false, on the way on which nothing failed every guard is true.
// go/ssa calls VerifBeforeLift while locals are still memory cells (before registers and phis exist); in that form a
// guard is a block that only loads the flag, compares it and branches, and an incoming edge on which the flag's
// value is known can be sent straight to the branch it will take, with nothing to repair. What the lifting pass then
// builds is the early-return shape of the same function. Known values: the zero value of a fresh cell, stores of
// nil / true / false, stores of errors.New / fmt.Errorf results and of freshly boxed interfaces (never nil), and
// what a branch on the flag itself says on each of its edges.

import (
	"fmt"
	"go/token"
	"go/types"
	"os"
	"sort"
	"strings"
	"sync"

	"golang.org/x/tools/go/ssa"
)

var (
	threadMu    sync.Mutex
	ThreadNotes []string
)

func init() { ssa.VerifBeforeLift = threadFlags }

type flagState int8

const (
	fsUnknown flagState = iota
	fsZero              // nil / false
	fsSet               // non-nil / true
	fsBottom            // no path reaches this point yet
)

func meetFlag(a, b flagState) flagState {
	switch {
	case a == fsBottom:
		return b
	case b == fsBottom:
		return a
	case a == b:
		return a
	}
	return fsUnknown
}

func inModuleFn(f *ssa.Function) bool {
	for f.Parent() != nil {
		f = f.Parent()
	}
	return f.Pkg != nil && f.Pkg.Pkg != nil && strings.HasPrefix(f.Pkg.Pkg.Path(), Mod)
}

// flagCell: a local cell that is only loaded and stored (what lifting turns into a register), holding an interface,
// pointer or boolean.
func flagCell(a *ssa.Alloc) (isBool, ok bool) {
	if a.Heap {
		return false, false
	}
	et := a.Type().Underlying().(*types.Pointer).Elem()
	switch u := et.Underlying().(type) {
	case *types.Interface, *types.Pointer:
	case *types.Basic:
		if u.Info()&types.IsBoolean == 0 {
			return false, false
		}
		isBool = true
	default:
		return false, false
	}
	refs := a.Referrers()
	if refs == nil {
		return false, false
	}
	for _, r := range *refs {
		switch x := r.(type) {
		case *ssa.Store:
			if x.Addr != ssa.Value(a) {
				return false, false
			}
		case *ssa.UnOp:
			if x.Op != token.MUL {
				return false, false
			}
		case *ssa.DebugRef:
		default:
			return false, false
		}
	}
	return isBool, true
}

func storedState(v ssa.Value, isBool bool) flagState {
	switch x := v.(type) {
	case *ssa.Const:
		if isBool {
			if b, ok := ConstBool(x); ok {
				if b {
					return fsSet
				}
				return fsZero
			}
			return fsUnknown
		}
		if x.Value == nil {
			return fsZero
		}
	case *ssa.MakeInterface:
		return fsSet // a boxed value is a non-nil interface whatever it holds
	case *ssa.Call:
		if f := x.Call.StaticCallee(); f != nil && f.Pkg != nil {
			switch f.Pkg.Pkg.Path() + "." + f.Name() {
			case "errors.New", "fmt.Errorf":
				return fsSet
			}
		}
	case *ssa.Alloc:
		return fsSet // the address of a fresh object
	}
	return fsUnknown
}

// guardOf: b does nothing but load cell a, test it and branch. Returns the successor index taken when the cell is
// zero (nil/false).
func guardOf(b *ssa.BasicBlock, a *ssa.Alloc, isBool bool) (succWhenZero int, ok bool) {
	ifi, isIf := b.Instrs[len(b.Instrs)-1].(*ssa.If)
	if !isIf || len(b.Succs) != 2 || b.Succs[0] == b.Succs[1] {
		return 0, false
	}
	var load *ssa.UnOp
	var others []ssa.Instruction
	for _, in := range b.Instrs[:len(b.Instrs)-1] {
		switch x := in.(type) {
		case *ssa.DebugRef:
		case *ssa.Alloc:
			// a declaration in front of the guard: hoisted to the entry block when the guard is threaded (the
			// block runs at most once, see onCycle)
			if onCycle(b) {
				return 0, false
			}
		case *ssa.UnOp:
			if x.Op == token.MUL && x.X == ssa.Value(a) && load == nil {
				load = x
			} else {
				others = append(others, in)
			}
		default:
			others = append(others, in)
		}
	}
	if load == nil || len(others) > 1 {
		return 0, false
	}
	// the loaded value is used only by the test
	trueWhenZero := false
	switch c := ifi.Cond.(type) {
	case *ssa.UnOp:
		switch {
		case isBool && c == load && len(others) == 0:
			trueWhenZero = false
		case isBool && c.Op == token.NOT && c.X == ssa.Value(load) && len(others) == 1 && others[0] == ssa.Instruction(c):
			trueWhenZero = true
		default:
			return 0, false
		}
	case *ssa.BinOp:
		if len(others) != 1 || others[0] != ssa.Instruction(c) || (c.Op != token.EQL && c.Op != token.NEQ) {
			return 0, false
		}
		var other ssa.Value
		switch {
		case c.X == ssa.Value(load):
			other = c.Y
		case c.Y == ssa.Value(load):
			other = c.X
		default:
			return 0, false
		}
		k, isK := other.(*ssa.Const)
		if !isK {
			return 0, false
		}
		if isBool {
			bv, okB := ConstBool(k)
			if !okB {
				return 0, false
			}
			// load == true: true when set; load == false: true when zero
			trueWhenZero = (c.Op == token.EQL) != bv
		} else {
			if k.Value != nil {
				return 0, false
			}
			trueWhenZero = c.Op == token.EQL
		}
	default:
		return 0, false
	}
	for _, r := range *load.Referrers() {
		if r.Block() != b {
			return 0, false
		}
	}
	if trueWhenZero {
		return 0, true
	}
	return 1, true
}

func threadFlags(f *ssa.Function) {
	if len(f.Blocks) < 3 || !inModuleFn(f) || os.Getenv("VERIF_NO_THREAD") != "" {
		return
	}
	threaded := 0
	for round := 0; round < 200; round++ {
		progress := false
		for _, b0 := range f.Blocks {
			for _, in := range b0.Instrs {
				a, isAlloc := in.(*ssa.Alloc)
				if !isAlloc {
					continue
				}
				isBool, ok := flagCell(a)
				if !ok {
					continue
				}
				if threadCell(f, a, isBool) {
					progress = true
					threaded++
				}
			}
		}
		// named results and other locals are not Alloc instructions of a block
		for _, a := range f.Locals {
			if a.Block() != nil {
				continue
			}
			if isBool, ok := flagCell(a); ok && threadCell(f, a, isBool) {
				progress = true
				threaded++
			}
		}
		if !progress {
			break
		}
		ssa.VerifDeleteUnreachable(f)
	}
	if threaded > 0 {
		threadMu.Lock()
		ThreadNotes = append(ThreadNotes, fmt.Sprintf("%s: %d guard edge(s) threaded", f.String(), threaded))
		threadMu.Unlock()
		if os.Getenv("VERIF_DEBUG_EXITS") != "" {
			fmt.Fprintf(os.Stderr, "thread: %s: %d guard edge(s) threaded\n", f.String(), threaded)
		}
	}
}

// threadCell performs one redirection for cell a, if any is possible.
func threadCell(f *ssa.Function, a *ssa.Alloc, isBool bool) bool {
	// guards on this cell
	type guard struct {
		b        *ssa.BasicBlock
		whenZero int
	}
	var guards []guard
	for _, b := range f.Blocks {
		if b.Index == 0 || len(b.Instrs) == 0 {
			continue
		}
		if wz, ok := guardOf(b, a, isBool); ok {
			guards = append(guards, guard{b, wz})
		}
	}
	if len(guards) == 0 {
		return false
	}
	// forward analysis: state of the cell at the end of each block and on each outgoing edge
	n := len(f.Blocks)
	in := make([]flagState, n)
	for i := range in {
		in[i] = fsBottom
	}
	idx := map[*ssa.BasicBlock]int{}
	for i, b := range f.Blocks {
		idx[b] = i
	}
	if a.Block() == nil {
		in[0] = fsZero // a named result or local declared with the function starts as its zero value
	} else {
		in[0] = fsUnknown
	}
	edgeOut := func(b *ssa.BasicBlock, st flagState) []flagState {
		cur := st
		var lastLoad *ssa.UnOp
		for _, ins := range b.Instrs {
			switch x := ins.(type) {
			case *ssa.Alloc:
				if x == a {
					cur = fsZero
					lastLoad = nil
				}
			case *ssa.Store:
				if x.Addr == ssa.Value(a) {
					cur = storedState(x.Val, isBool)
					lastLoad = nil
				}
			case *ssa.UnOp:
				if x.Op == token.MUL && x.X == ssa.Value(a) {
					lastLoad = x
				}
			}
		}
		out := make([]flagState, len(b.Succs))
		for i := range out {
			out[i] = cur
		}
		// a branch on the value just loaded decides the cell on each edge
		if ifi, isIf := b.Instrs[len(b.Instrs)-1].(*ssa.If); isIf && lastLoad != nil && len(b.Succs) == 2 {
			zeroSucc := -1
			switch c := ifi.Cond.(type) {
			case *ssa.UnOp:
				if isBool && c == lastLoad {
					zeroSucc = 1
				} else if isBool && c.Op == token.NOT && c.X == ssa.Value(lastLoad) {
					zeroSucc = 0
				}
			case *ssa.BinOp:
				if c.Op == token.EQL || c.Op == token.NEQ {
					var other ssa.Value
					if c.X == ssa.Value(lastLoad) {
						other = c.Y
					} else if c.Y == ssa.Value(lastLoad) {
						other = c.X
					}
					if k, isK := other.(*ssa.Const); isK {
						if isBool {
							if bv, okB := ConstBool(k); okB {
								if (c.Op == token.EQL) != bv {
									zeroSucc = 0
								} else {
									zeroSucc = 1
								}
							}
						} else if k.Value == nil {
							if c.Op == token.EQL {
								zeroSucc = 0
							} else {
								zeroSucc = 1
							}
						}
					}
				}
			}
			if zeroSucc >= 0 {
				out[zeroSucc] = fsZero
				out[1-zeroSucc] = fsSet
			}
		}
		return out
	}
	for changed, it := true, 0; changed && it < 200; it++ {
		changed = false
		for _, b := range f.Blocks {
			st := in[idx[b]]
			if st == fsBottom {
				continue
			}
			outs := edgeOut(b, st)
			for si, s := range b.Succs {
				j := idx[s]
				m := meetFlag(in[j], outs[si])
				if m != in[j] {
					in[j] = m
					changed = true
				}
			}
		}
	}
	// one decided edge into a guard: redirect it
	sort.Slice(guards, func(i, j int) bool { return guards[i].b.Index < guards[j].b.Index })
	for _, g := range guards {
		seen := map[*ssa.BasicBlock]int{}
		for _, p := range g.b.Preds {
			seen[p]++
		}
		for _, p := range g.b.Preds {
			if seen[p] != 1 || p == g.b || in[idx[p]] == fsBottom {
				continue
			}
			outs := edgeOut(p, in[idx[p]])
			var st flagState = fsUnknown
			for si, s := range p.Succs {
				if s == g.b {
					st = outs[si]
				}
			}
			var target *ssa.BasicBlock
			switch st {
			case fsZero:
				target = g.b.Succs[g.whenZero]
			case fsSet:
				target = g.b.Succs[1-g.whenZero]
			default:
				continue
			}
			if target == g.b {
				continue
			}
			for _, in := range append([]ssa.Instruction{}, g.b.Instrs...) {
				if al, isAlloc := in.(*ssa.Alloc); isAlloc {
					ssa.VerifHoistToEntry(al)
				}
			}
			ssa.VerifRedirect(p, g.b, target)
			return true
		}
	}
	// a small block of plain local arithmetic between the deciding edges and the guard (the `i++` of a loop whose
	// condition also tests the flag): give a predecessor that knows the flag its own copy of it
	copies := 0
	for _, b := range f.Blocks {
		if strings.HasSuffix(b.Comment, ".copy") {
			copies++
		}
	}
	if len(f.Blocks) < 400 && copies < 24 {
		// blocks from which a guard is reached through at most three blocks of plain local arithmetic
		var cands []*ssa.BasicBlock
		seenC := map[*ssa.BasicBlock]bool{}
		frontier := []*ssa.BasicBlock{}
		for _, g := range guards {
			frontier = append(frontier, g.b)
		}
		for depth := 0; depth < 3; depth++ {
			var nextF []*ssa.BasicBlock
			for _, b := range frontier {
				for _, m := range b.Preds {
					if seenC[m] || m.Index == 0 || !plainBlock(m) {
						continue
					}
					seenC[m] = true
					cands = append(cands, m)
					nextF = append(nextF, m)
				}
			}
			frontier = nextF
		}
		for _, g := range guards[:1] {
			for _, m := range cands {
				if len(m.Preds) < 2 || m == g.b || m.Index == 0 || in[idx[m]] != fsUnknown {
					continue
				}
				writes := false
				for _, ins := range m.Instrs {
					if st, isSt := ins.(*ssa.Store); isSt && st.Addr == ssa.Value(a) {
						writes = true
					}
					if al, isAl := ins.(*ssa.Alloc); isAl && al == a {
						writes = true
					}
				}
				if writes {
					continue
				}
				seen := map[*ssa.BasicBlock]int{}
				for _, p := range m.Preds {
					seen[p]++
				}
				for _, p := range m.Preds {
					if seen[p] != 1 || p == m || in[idx[p]] == fsBottom {
						continue
					}
					outs := edgeOut(p, in[idx[p]])
					st := fsUnknown
					for si, s := range p.Succs {
						if s == m {
							st = outs[si]
						}
					}
					if st != fsZero && st != fsSet {
						continue
					}
					if !onCycle(m) {
						for _, ins := range append([]ssa.Instruction{}, m.Instrs...) {
							if al, isAlloc := ins.(*ssa.Alloc); isAlloc && al != a {
								ssa.VerifHoistToEntry(al)
							}
						}
					}
					if nb := ssa.VerifCloneBlockFor(m, p); nb != nil {
						return true
					}
				}
			}
		}
	}
	return false
}

// onCycle: b can be reached from one of its successors (it may run more than once).
func onCycle(b *ssa.BasicBlock) bool {
	seen := map[*ssa.BasicBlock]bool{}
	stack := append([]*ssa.BasicBlock{}, b.Succs...)
	for len(stack) > 0 {
		x := stack[len(stack)-1]
		stack = stack[:len(stack)-1]
		if x == b {
			return true
		}
		if seen[x] {
			continue
		}
		seen[x] = true
		stack = append(stack, x.Succs...)
	}
	return false
}

// plainBlock: loads, stores, integer arithmetic, conversions and len/cap, then a jump or a branch.
func plainBlock(m *ssa.BasicBlock) bool {
	if len(m.Instrs) == 0 || len(m.Instrs) > 12 {
		return false
	}
	for i, in := range m.Instrs {
		last := i == len(m.Instrs)-1
		switch x := in.(type) {
		case *ssa.UnOp, *ssa.BinOp, *ssa.Convert, *ssa.Store, *ssa.Alloc:
			if last {
				return false
			}
		case *ssa.Call:
			bi, ok := x.Call.Value.(*ssa.Builtin)
			if !ok || (bi.Name() != "len" && bi.Name() != "cap") || last {
				return false
			}
		case *ssa.Jump, *ssa.If:
			if !last {
				return false
			}
		default:
			return false
		}
	}
	return true
}
