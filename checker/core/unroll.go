package core

// Normalisation of table-driven rewrites.
//
// A loop over a small constant table that is a local composite literal,
//
//	vectors := [...]struct{ name string; points []Element }{{"L", ip.L}, {"R", ip.R}}
//	for _, v := range vectors { … v.points … }
//
// is the unrolled sequence of its bodies with the table entries substituted. The normaliser performs that rewrite on
// the scratch copy in three kinds of behaviour-preserving steps, one per round (each round re-type-checks the tree):
//
//	bind    for … range LIT { … }           →  { _tblN := LIT; for … range _tblN { … } }
//	hoist   T := S{{f: e}, …}                →  var _tblN_0_f F = e; …; T := S{{f: _tblN_0_f}, …}     (e not a stable operand)
//	unroll  for k, v := range T { body }     →  { {k := 0; body[v.f := entry 0's f]} {k := 1; …} …; _ = T }
//
// unroll requires every table entry the body uses to be a stable operand (a constant, or a local variable / parameter
// that is assigned exactly once and whose address is never taken), a body without break/continue/goto/labels/function
// literals of its own, and a table variable that is used for nothing but ranging, len and T[k] reads. Tables whose
// entries are all plain constants (data such as MultiExp's list of implemented window widths) are left alone; the
// tree the checks were frozen on contains no other table loop, so on it nothing is rewritten.

import (
	"fmt"
	"go/ast"
	"go/token"
	"go/types"
	"os"
	"sort"
	"strings"

	"golang.org/x/tools/go/packages"
)

const maxTable = 16

type tableInfo struct {
	lit     *ast.CompositeLit
	n       int
	elemT   types.Type
	st      *types.Struct           // non-nil for struct entries
	entries []map[string]ast.Expr   // struct entries: field name -> expression (as written)
	plain   []ast.Expr              // non-struct entries
	defStmt ast.Stmt                // the statement defining T (nil for a literal ranged over directly)
	obj     types.Object            // T
}

// tableLit decodes a composite literal as a table: array or slice without keys, entries that are struct literals
// (keyed or positional) or plain expressions.
func tableLit(info *types.Info, lit *ast.CompositeLit) *tableInfo {
	t := info.TypeOf(lit)
	if t == nil {
		return nil
	}
	var elem types.Type
	switch u := t.Underlying().(type) {
	case *types.Array:
		elem = u.Elem()
	case *types.Slice:
		elem = u.Elem()
	default:
		return nil
	}
	if len(lit.Elts) > maxTable {
		return nil
	}
	ti := &tableInfo{lit: lit, n: len(lit.Elts), elemT: elem}
	st, isStruct := elem.Underlying().(*types.Struct)
	if !isStruct {
		// a table of constants is data, not a list of operands: it stays a loop
		allConst := true
		for _, e := range lit.Elts {
			if tv, ok := info.Types[e]; !ok || tv.Value == nil {
				allConst = false
			}
		}
		if allConst {
			return nil
		}
	}
	if isStruct {
		ti.st = st
	}
	for _, e := range lit.Elts {
		if _, isKV := e.(*ast.KeyValueExpr); isKV {
			return nil
		}
		if !isStruct {
			ti.plain = append(ti.plain, e)
			continue
		}
		cl, isCL := e.(*ast.CompositeLit)
		if !isCL {
			return nil
		}
		if cl.Type != nil {
			if tt := info.TypeOf(cl.Type); tt == nil || !types.Identical(tt, elem) {
				return nil
			}
		}
		m := map[string]ast.Expr{}
		for i, fe := range cl.Elts {
			if kv, isKV := fe.(*ast.KeyValueExpr); isKV {
				id, isID := kv.Key.(*ast.Ident)
				if !isID {
					return nil
				}
				m[id.Name] = kv.Value
				continue
			}
			if len(cl.Elts) != st.NumFields() {
				return nil
			}
			m[st.Field(i).Name()] = fe
		}
		ti.entries = append(ti.entries, m)
	}
	return ti
}

// funcFacts: per function, which local variables are assigned more than once or have their address taken.
type funcFacts struct {
	info     *types.Info
	assigns  map[types.Object]int
	addrOf   map[types.Object]bool
	declared map[types.Object]bool
}

func factsOf(info *types.Info, fd *ast.FuncDecl) *funcFacts {
	ff := &funcFacts{info, map[types.Object]int{}, map[types.Object]bool{}, map[types.Object]bool{}}
	note := func(e ast.Expr) {
		if id, ok := ast.Unparen(e).(*ast.Ident); ok {
			if o := info.Defs[id]; o != nil {
				ff.assigns[o]++
				ff.declared[o] = true
			} else if o := info.Uses[id]; o != nil {
				ff.assigns[o]++
			}
		}
	}
	if fd.Recv != nil {
		for _, f := range fd.Recv.List {
			for _, n := range f.Names {
				ff.declared[info.Defs[n]] = true
			}
		}
	}
	for _, f := range fd.Type.Params.List {
		for _, n := range f.Names {
			ff.declared[info.Defs[n]] = true
			ff.assigns[info.Defs[n]]++
		}
	}
	ast.Inspect(fd.Body, func(n ast.Node) bool {
		switch x := n.(type) {
		case *ast.AssignStmt:
			for _, l := range x.Lhs {
				note(l)
			}
		case *ast.IncDecStmt:
			note(x.X)
			note(x.X)
		case *ast.RangeStmt:
			if x.Key != nil {
				note(x.Key)
				note(x.Key) // assigned on every iteration
			}
			if x.Value != nil {
				note(x.Value)
				note(x.Value)
			}
		case *ast.ValueSpec:
			for _, nm := range x.Names {
				note(nm)
			}
		case *ast.UnaryExpr:
			if x.Op == token.AND {
				e := ast.Unparen(x.X)
				for {
					switch y := e.(type) {
					case *ast.SelectorExpr:
						e = ast.Unparen(y.X)
						continue
					case *ast.IndexExpr:
						e = ast.Unparen(y.X)
						continue
					}
					break
				}
				if id, ok := e.(*ast.Ident); ok {
					if o := info.Uses[id]; o != nil {
						ff.addrOf[o] = true
					}
				}
			}
		case *ast.FuncLit:
			// captured variables may be assigned inside: handled by the walk itself (assignments are counted wherever they are)
		}
		return true
	})
	return ff
}

// stable: evaluating e at any later point of the function gives the value it has now.
func (ff *funcFacts) stable(e ast.Expr) bool {
	e = ast.Unparen(e)
	if tv, ok := ff.info.Types[e]; ok && tv.Value != nil {
		return true // constant expression
	}
	switch x := e.(type) {
	case *ast.BasicLit:
		return true
	case *ast.Ident:
		switch o := ff.info.Uses[x].(type) {
		case *types.Const, *types.Nil:
			return true
		case *types.Var:
			return ff.declared[o] && ff.assigns[o] == 1 && !ff.addrOf[o] && !o.IsField()
		}
	}
	return false
}

type tableStep struct {
	file    string
	content []byte
	site    string
	what    string
}

// findTableStep looks for the first applicable table step (bind, hoist or unroll) that has not been given up on.
func findTableStep(pkgs []*packages.Package, gaveUp map[string]bool, seq *int) (*tableStep, error) {
	for _, p := range pkgs {
		for i, f := range p.Syntax {
			filename := p.CompiledGoFiles[i]
			if strings.HasSuffix(filename, "_test.go") {
				continue
			}
			for _, d := range f.Decls {
				fd, ok := d.(*ast.FuncDecl)
				if !ok || fd.Body == nil {
					continue
				}
				st, err := tableStepIn(p, f, filename, fd, gaveUp, seq)
				if err != nil {
					return nil, err
				}
				if st != nil {
					return st, nil
				}
			}
		}
	}
	return nil, nil
}

func hasTableLoops(pkgs []*packages.Package) bool {
	seq := 0
	st, _ := findTableStep(pkgs, map[string]bool{}, &seq)
	return st != nil
}

func srcOf(fset *token.FileSet, src []byte, n ast.Node) string {
	return string(src[fset.Position(n.Pos()).Offset:fset.Position(n.End()).Offset])
}

func tableStepIn(p *packages.Package, file *ast.File, filename string, fd *ast.FuncDecl, gaveUp map[string]bool, seq *int) (*tableStep, error) {
	info := p.TypesInfo
	fset := p.Fset
	var src []byte
	read := func() error {
		if src != nil {
			return nil
		}
		b, err := os.ReadFile(filename)
		src = b
		return err
	}
	// statement lists and parents
	parent := map[ast.Node]ast.Node{}
	var stack []ast.Node
	ast.Inspect(fd, func(n ast.Node) bool {
		if n == nil {
			stack = stack[:len(stack)-1]
			return true
		}
		if len(stack) > 0 {
			parent[n] = stack[len(stack)-1]
		}
		stack = append(stack, n)
		return true
	})
	inList := func(s ast.Stmt) bool {
		switch b := parent[s].(type) {
		case *ast.BlockStmt:
			return true
		case *ast.CaseClause, *ast.CommClause:
			_ = b
			return true
		}
		return false
	}
	var ranges []*ast.RangeStmt
	ast.Inspect(fd.Body, func(n ast.Node) bool {
		if rs, ok := n.(*ast.RangeStmt); ok {
			ranges = append(ranges, rs)
		}
		return true
	})
	key := FuncKey(p.PkgPath, fd)
	sc := &spliceCtx{fset: fset, callerPkg: p.Types, callerInfo: info, callerFile: file}
	var ff *funcFacts
	for ri, rs := range ranges {
		site := fmt.Sprintf("%s>table-loop#%d", key, ri)
		if gaveUp[site] {
			continue
		}
		if rs.Tok != token.DEFINE && (rs.Key != nil || rs.Value != nil) {
			continue
		}
		if _, labelled := parent[rs].(*ast.LabeledStmt); labelled {
			continue
		}
		// --- bind: a literal ranged over directly
		if lit, isLit := ast.Unparen(rs.X).(*ast.CompositeLit); isLit {
			if tableLit(info, lit) == nil || !inList(rs) {
				continue
			}
			if err := read(); err != nil {
				return nil, err
			}
			*seq++
			name := fmt.Sprintf("_tbl%d", *seq)
			from, to := fset.Position(rs.Pos()).Offset, fset.Position(rs.End()).Offset
			xs, xe := fset.Position(rs.X.Pos()).Offset, fset.Position(rs.X.End()).Offset
			text := "{\n" + name + " := " + string(src[xs:xe]) + "\n" + string(src[from:xs]) + name + string(src[xe:to]) + "\n}"
			out := string(src[:from]) + text + string(src[to:])
			return &tableStep{filename, []byte(out), site, "bind"}, nil
		}
		id, isID := ast.Unparen(rs.X).(*ast.Ident)
		if !isID {
			continue
		}
		T, _ := info.Uses[id].(*types.Var)
		if T == nil || T.Parent() == nil || T.Pkg() == nil || T.Parent() == T.Pkg().Scope() {
			continue
		}
		// definition of T: T := LIT or var T = LIT, once, in this function
		var ti *tableInfo
		nDefs := 0
		ast.Inspect(fd.Body, func(n ast.Node) bool {
			switch x := n.(type) {
			case *ast.AssignStmt:
				for k, l := range x.Lhs {
					lid, ok := ast.Unparen(l).(*ast.Ident)
					if !ok || (info.Defs[lid] != T && info.Uses[lid] != T) {
						continue
					}
					nDefs++
					if x.Tok == token.DEFINE && len(x.Lhs) == 1 && len(x.Rhs) == 1 && k == 0 {
						if lit, isLit := ast.Unparen(x.Rhs[0]).(*ast.CompositeLit); isLit {
							if t := tableLit(info, lit); t != nil {
								t.defStmt, t.obj = x, T
								ti = t
							}
						}
					}
				}
			case *ast.DeclStmt:
				gd, ok := x.Decl.(*ast.GenDecl)
				if !ok || gd.Tok != token.VAR {
					return true
				}
				for _, sp := range gd.Specs {
					vs := sp.(*ast.ValueSpec)
					for _, nm := range vs.Names {
						if info.Defs[nm] != T {
							continue
						}
						nDefs++
						if len(gd.Specs) == 1 && len(vs.Names) == 1 && len(vs.Values) == 1 {
							if lit, isLit := ast.Unparen(vs.Values[0]).(*ast.CompositeLit); isLit {
								if t := tableLit(info, lit); t != nil {
									t.defStmt, t.obj = x, T
									ti = t
								}
							}
						}
					}
				}
			}
			return true
		})
		if ti == nil || nDefs != 1 || !inList(ti.defStmt) {
			continue
		}
		if ff == nil {
			ff = factsOf(info, fd)
		}
		if ff.addrOf[T] {
			continue
		}
		// every use of T: range operand, len/cap argument, or T[k] with k the key of an enclosing range over T
		usesOK := true
		ast.Inspect(fd.Body, func(n ast.Node) bool {
			uid, ok := n.(*ast.Ident)
			if !ok || info.Uses[uid] != T {
				return true
			}
			switch par := parent[uid].(type) {
			case *ast.RangeStmt:
				if par.X == ast.Expr(uid) {
					return true
				}
			case *ast.CallExpr:
				if fid, isF := par.Fun.(*ast.Ident); isF && (fid.Name == "len" || fid.Name == "cap") {
					if _, isB := info.Uses[fid].(*types.Builtin); isB {
						return true
					}
				}
			case *ast.IndexExpr:
				if par.X == ast.Expr(uid) {
					if kid, isK := ast.Unparen(par.Index).(*ast.Ident); isK {
						for a := parent[par]; a != nil; a = parent[a] {
							if ors, isR := a.(*ast.RangeStmt); isR && ors.Key != nil {
								if okid, isI := ors.Key.(*ast.Ident); isI && info.Defs[okid] != nil && info.Defs[okid] == info.Uses[kid] {
									if xid, isX := ast.Unparen(ors.X).(*ast.Ident); isX && info.Uses[xid] == T {
										return true
									}
								}
							}
						}
					}
				}
			case *ast.AssignStmt:
				// `_ = T` left by an earlier unroll
				if len(par.Lhs) == 1 && len(par.Rhs) == 1 && par.Rhs[0] == ast.Expr(uid) {
					if b, isB := par.Lhs[0].(*ast.Ident); isB && b.Name == "_" {
						return true
					}
				}
			}
			usesOK = false
			return true
		})
		if !usesOK {
			continue
		}
		// --- body conditions
		bodyOK := true
		var walk func(n ast.Node, inLoop, inSwitch bool)
		walk = func(n ast.Node, inLoop, inSwitch bool) {
			ast.Inspect(n, func(m ast.Node) bool {
				if m == nil || m == n {
					return true
				}
				switch x := m.(type) {
				case *ast.FuncLit, *ast.LabeledStmt:
					bodyOK = false
					return false
				case *ast.ForStmt:
					walk(x.Body, true, true)
					return false
				case *ast.RangeStmt:
					walk(x.Body, true, true)
					return false
				case *ast.SwitchStmt:
					walk(x.Body, inLoop, true)
					return false
				case *ast.TypeSwitchStmt:
					walk(x.Body, inLoop, true)
					return false
				case *ast.SelectStmt:
					walk(x.Body, inLoop, true)
					return false
				case *ast.BranchStmt:
					switch {
					case x.Label != nil, x.Tok == token.GOTO:
						bodyOK = false
					case x.Tok == token.CONTINUE && !inLoop:
						bodyOK = false
					case x.Tok == token.BREAK && !inSwitch:
						bodyOK = false
					}
				}
				return true
			})
		}
		walk(rs.Body, false, false)
		if !bodyOK || !inList(rs) {
			gaveUp[site] = true
			continue
		}
		var keyObj, valObj types.Object
		if kid, ok := rs.Key.(*ast.Ident); ok && kid.Name != "_" {
			keyObj = info.Defs[kid]
		}
		if vid, ok := rs.Value.(*ast.Ident); ok && vid.Name != "_" {
			valObj = info.Defs[vid]
		}
		if (keyObj != nil && (ff.addrOf[keyObj] || ff.assigns[keyObj] != 2)) || (valObj != nil && ff.addrOf[valObj]) {
			gaveUp[site] = true
			continue
		}
		// --- substitution targets in the body
		type subst struct {
			node  ast.Node
			field string // "" for a plain entry
		}
		var substs []subst
		ok := true
		entryRef := func(e ast.Expr) bool { // e denotes "the current entry": v, or T[key]
			e = ast.Unparen(e)
			if eid, isI := e.(*ast.Ident); isI {
				return valObj != nil && info.Uses[eid] == valObj
			}
			if ix, isIx := e.(*ast.IndexExpr); isIx {
				xid, isX := ast.Unparen(ix.X).(*ast.Ident)
				kid, isK := ast.Unparen(ix.Index).(*ast.Ident)
				return isX && isK && info.Uses[xid] == T && keyObj != nil && info.Uses[kid] == keyObj
			}
			return false
		}
		written := func(n ast.Node) bool { // n is assigned, incremented or has its address taken
			for c, a := n, parent[n]; a != nil; c, a = a, parent[a] {
				switch x := a.(type) {
				case *ast.ParenExpr:
					continue
				case *ast.AssignStmt:
					for _, l := range x.Lhs {
						if l == c {
							return true
						}
					}
				case *ast.IncDecStmt:
					return x.X == c
				case *ast.UnaryExpr:
					return x.Op == token.AND && x.X == c
				}
				return false
			}
			return false
		}
		ast.Inspect(rs.Body, func(n ast.Node) bool {
			switch x := n.(type) {
			case *ast.SelectorExpr:
				if ti.st != nil && entryRef(x.X) {
					if written(x) {
						ok = false
					}
					substs = append(substs, subst{x, x.Sel.Name})
					return false
				}
			case *ast.IndexExpr:
				if entryRef(x) {
					if ti.st != nil || written(x) {
						ok = false // a whole struct entry, or a write into the table
					}
					substs = append(substs, subst{x, ""})
					return false
				}
			case *ast.Ident:
				if valObj != nil && info.Uses[x] == valObj && ti.st != nil {
					ok = false // the struct entry used as a whole
				}
			}
			return true
		})
		if !ok {
			gaveUp[site] = true
			continue
		}
		// entries needed by the body (struct case), or all plain entries
		needHoist := []ast.Expr{}
		seenExpr := map[ast.Expr]bool{}
		want := func(e ast.Expr) {
			if e != nil && !ff.stable(e) && !seenExpr[e] {
				seenExpr[e] = true
				needHoist = append(needHoist, e)
			}
		}
		missing := false
		if ti.st != nil {
			for _, s := range substs {
				for k := 0; k < ti.n; k++ {
					e, has := ti.entries[k][s.field]
					if !has {
						missing = true
					}
					want(e)
				}
			}
		} else if valObj != nil || len(substs) > 0 {
			for _, e := range ti.plain {
				want(e)
			}
		}
		if missing {
			gaveUp[site] = true
			continue
		}
		if err := read(); err != nil {
			return nil, err
		}
		// --- hoist: bind the unstable entries to variables just before the table's definition
		if len(needHoist) > 0 {
			hsite := site + ">hoist"
			if gaveUp[hsite] {
				continue
			}
			sort.Slice(needHoist, func(a, b int) bool { return needHoist[a].Pos() < needHoist[b].Pos() })
			*seq++
			var decls []string
			var edits []textEdit
			okT := true
			for hi, e := range needHoist {
				t := info.TypeOf(e)
				if t == nil {
					okT = false
					break
				}
				if b, isB := t.(*types.Basic); isB && b.Info()&types.IsUntyped != 0 {
					t = types.Default(t)
				}
				// the declared type of the slot the expression initialises
				if ti.st != nil {
					for k := 0; k < ti.n; k++ {
						for fname, fe := range ti.entries[k] {
							if fe == e {
								for fi := 0; fi < ti.st.NumFields(); fi++ {
									if ti.st.Field(fi).Name() == fname {
										t = ti.st.Field(fi).Type()
									}
								}
							}
						}
					}
				} else {
					t = ti.elemT
				}
				ts, err := sc.typeString(t)
				if err != nil {
					okT = false
					break
				}
				name := fmt.Sprintf("_tbl%d_%d", *seq, hi)
				decls = append(decls, fmt.Sprintf("var %s %s = %s", name, ts, srcOf(fset, src, e)))
				edits = append(edits, textEdit{fset.Position(e.Pos()).Offset, fset.Position(e.End()).Offset, name})
			}
			if !okT {
				gaveUp[hsite] = true
				gaveUp[site] = true
				continue
			}
			at := fset.Position(ti.defStmt.Pos()).Offset
			edits = append(edits, textEdit{at, at, strings.Join(decls, "\n") + "\n"})
			return &tableStep{filename, []byte(applyEdits(src, 0, edits)), hsite, "hoist"}, nil
		}
		// --- unroll
		ets := ""
		if valObj != nil && ti.st == nil {
			s, err := sc.typeString(ti.elemT)
			if err != nil {
				gaveUp[site] = true
				continue
			}
			ets = s
		}
		bodyFrom, bodyTo := fset.Position(rs.Body.Lbrace).Offset+1, fset.Position(rs.Body.Rbrace).Offset
		var sb strings.Builder
		convFail := false
		sb.WriteString("{\n")
		for k := 0; k < ti.n; k++ {
			sb.WriteString("{\n")
			if keyObj != nil {
				fmt.Fprintf(&sb, "%s := %d\n_ = %s\n", keyObj.Name(), k, keyObj.Name())
			}
			if valObj != nil && ti.st == nil {
				fmt.Fprintf(&sb, "var %s %s = %s\n_ = %s\n", valObj.Name(), ets, srcOf(fset, src, ti.plain[k]), valObj.Name())
			}
			var edits []textEdit
			for _, s := range substs {
				var e ast.Expr
				if s.field != "" {
					e = ti.entries[k][s.field]
				} else {
					e = ti.plain[k]
				}
				text := "(" + srcOf(fset, src, e) + ")"
				if tv, isTV := info.Types[e]; isTV && tv.Value != nil {
					// a constant keeps the type of the slot it initialised
					slot := ti.elemT
					if s.field != "" {
						for fi := 0; fi < ti.st.NumFields(); fi++ {
							if ti.st.Field(fi).Name() == s.field {
								slot = ti.st.Field(fi).Type()
							}
						}
					}
					ts, err := sc.typeString(slot)
					if err != nil {
						convFail = true
					}
					text = "(" + ts + ")" + text
				}
				edits = append(edits, textEdit{fset.Position(s.node.Pos()).Offset, fset.Position(s.node.End()).Offset, text})
			}
			sb.WriteString(applyEdits(src[bodyFrom:bodyTo], bodyFrom, edits))
			sb.WriteString("\n}\n")
		}
		if convFail {
			gaveUp[site] = true
			continue
		}
		fmt.Fprintf(&sb, "_ = %s\n}", T.Name())
		from, to := fset.Position(rs.Pos()).Offset, fset.Position(rs.End()).Offset
		out := string(src[:from]) + sb.String() + string(src[to:])
		return &tableStep{filename, []byte(out), site, "unroll"}, nil
	}
	return nil, nil
}
