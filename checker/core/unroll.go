package core

// Normalisation of table-driven rewrites.
//
// A loop over a small constant table that is a local composite literal,
//
//	vectors := [...]struct{ name string; points []Element }{{"L", ip.L}, {"R", ip.R}}
//	for _, v := range vectors { … v.points … }
//
// is the unrolled sequence of its bodies with the table entries substituted. The normaliser performs that rewrite on
// the scratch copy in three kinds of behaviour-preserving steps, one per round (each round re-type-checks the tree):
//
//	bind    for … range LIT { … }           →  { _tblN := LIT; for … range _tblN { … } }
//	hoist   T := S{{f: e}, …}                →  var _tblN_0_f F = e; …; T := S{{f: _tblN_0_f}, …}     (e not a stable operand)
//	unroll  for k, v := range T { body }     →  { {k := 0; body[v.f := entry 0's f]} {k := 1; …} …; _ = T }
//
// unroll requires every table entry the body uses to be a stable operand (a constant, or a local variable / parameter
// that is assigned exactly once and whose address is never taken), a body without break/continue/goto/labels/function
// literals of its own, and a table variable that is used for nothing but ranging, len and T[k] reads. Tables whose
// entries are all plain constants (data such as MultiExp's list of implemented window widths) are left alone; the
// tree the checks were frozen on contains no other table loop, so on it nothing is rewritten.

import (
	"fmt"
	"go/ast"
	"go/token"
	"go/types"
	"os"
	"sort"
	"strings"

	"golang.org/x/tools/go/packages"
)

const maxTable = 64

type tableInfo struct {
	lit     *ast.CompositeLit
	n       int
	elemT   types.Type
	st      *types.Struct         // non-nil for struct entries
	entries []map[string]ast.Expr // struct entries: field name -> expression (as written)
	plain   []ast.Expr            // non-struct entries
	defStmt ast.Stmt              // the statement defining T (nil for a literal ranged over directly)
	obj     types.Object          // T
}

// tableLit decodes a composite literal as a table: array or slice without keys, entries that are struct literals
// (keyed or positional) or plain expressions.
func tableLit(info *types.Info, lit *ast.CompositeLit) *tableInfo {
	t := info.TypeOf(lit)
	if t == nil {
		return nil
	}
	var elem types.Type
	switch u := t.Underlying().(type) {
	case *types.Array:
		elem = u.Elem()
	case *types.Slice:
		elem = u.Elem()
	default:
		return nil
	}
	if len(lit.Elts) > maxTable {
		return nil
	}
	ti := &tableInfo{lit: lit, n: len(lit.Elts), elemT: elem}
	st, isStruct := elem.Underlying().(*types.Struct)
	if !isStruct {
		// a table of constants is data, not a list of operands: it stays a loop
		allConst := true
		for _, e := range lit.Elts {
			if tv, ok := info.Types[e]; !ok || tv.Value == nil {
				allConst = false
			}
		}
		if allConst {
			return nil
		}
	}
	if isStruct {
		ti.st = st
	}
	for _, e := range lit.Elts {
		if _, isKV := e.(*ast.KeyValueExpr); isKV {
			return nil
		}
		if !isStruct {
			ti.plain = append(ti.plain, e)
			continue
		}
		cl, isCL := e.(*ast.CompositeLit)
		if !isCL {
			return nil
		}
		if cl.Type != nil {
			if tt := info.TypeOf(cl.Type); tt == nil || !types.Identical(tt, elem) {
				return nil
			}
		}
		m := map[string]ast.Expr{}
		for i, fe := range cl.Elts {
			if kv, isKV := fe.(*ast.KeyValueExpr); isKV {
				id, isID := kv.Key.(*ast.Ident)
				if !isID {
					return nil
				}
				m[id.Name] = kv.Value
				continue
			}
			if len(cl.Elts) != st.NumFields() {
				return nil
			}
			m[st.Field(i).Name()] = fe
		}
		ti.entries = append(ti.entries, m)
	}
	return ti
}

// funcFacts: per function, which local variables are assigned more than once or have their address taken.
type funcFacts struct {
	info     *types.Info
	assigns  map[types.Object]int
	addrOf   map[types.Object]bool
	declared map[types.Object]bool
}

func factsOf(info *types.Info, fd *ast.FuncDecl) *funcFacts {
	ff := &funcFacts{info, map[types.Object]int{}, map[types.Object]bool{}, map[types.Object]bool{}}
	note := func(e ast.Expr) {
		if id, ok := ast.Unparen(e).(*ast.Ident); ok {
			if o := info.Defs[id]; o != nil {
				ff.assigns[o]++
				ff.declared[o] = true
			} else if o := info.Uses[id]; o != nil {
				ff.assigns[o]++
			}
		}
	}
	if fd.Recv != nil {
		for _, f := range fd.Recv.List {
			for _, n := range f.Names {
				ff.declared[info.Defs[n]] = true
			}
		}
	}
	for _, f := range fd.Type.Params.List {
		for _, n := range f.Names {
			ff.declared[info.Defs[n]] = true
			ff.assigns[info.Defs[n]]++
		}
	}
	ast.Inspect(fd.Body, func(n ast.Node) bool {
		switch x := n.(type) {
		case *ast.AssignStmt:
			for _, l := range x.Lhs {
				note(l)
			}
		case *ast.IncDecStmt:
			note(x.X)
			note(x.X)
		case *ast.RangeStmt:
			if x.Key != nil {
				note(x.Key)
				note(x.Key) // assigned on every iteration
			}
			if x.Value != nil {
				note(x.Value)
				note(x.Value)
			}
		case *ast.ValueSpec:
			for _, nm := range x.Names {
				note(nm)
			}
		case *ast.UnaryExpr:
			if x.Op == token.AND {
				e := ast.Unparen(x.X)
				for {
					switch y := e.(type) {
					case *ast.SelectorExpr:
						e = ast.Unparen(y.X)
						continue
					case *ast.IndexExpr:
						e = ast.Unparen(y.X)
						continue
					}
					break
				}
				if id, ok := e.(*ast.Ident); ok {
					if o := info.Uses[id]; o != nil {
						ff.addrOf[o] = true
					}
				}
			}
		case *ast.FuncLit:
			// captured variables may be assigned inside: handled by the walk itself (assignments are counted wherever they are)
		}
		return true
	})
	return ff
}

// stable: evaluating e at any later point of the function gives the value it has now.
func (ff *funcFacts) stable(e ast.Expr) bool {
	e = ast.Unparen(e)
	if tv, ok := ff.info.Types[e]; ok && tv.Value != nil {
		return true // constant expression
	}
	switch x := e.(type) {
	case *ast.BasicLit:
		return true
	case *ast.UnaryExpr:
		// the address of a local variable is the same whenever it is taken
		if id, isID := ast.Unparen(x.X).(*ast.Ident); isID && x.Op == token.AND {
			if v, isVar := ff.info.Uses[id].(*types.Var); isVar && ff.declared[v] && !v.IsField() {
				return true
			}
		}
	case *ast.Ident:
		switch o := ff.info.Uses[x].(type) {
		case *types.Const, *types.Nil:
			return true
		case *types.Func:
			return true // a declared function
		case *types.Var:
			return ff.declared[o] && ff.assigns[o] == 1 && !ff.addrOf[o] && !o.IsField()
		}
	}
	return false
}

type tableStep struct {
	file    string
	content []byte
	site    string
	what    string
}

// findTableStep looks for the first applicable table step (bind, hoist or unroll) that has not been given up on.
func findTableStep(pkgs []*packages.Package, gaveUp map[string]bool, seq *int) (*tableStep, error) {
	for _, p := range pkgs {
		for i, f := range p.Syntax {
			filename := p.CompiledGoFiles[i]
			if strings.HasSuffix(filename, "_test.go") {
				continue
			}
			for _, d := range f.Decls {
				fd, ok := d.(*ast.FuncDecl)
				if !ok || fd.Body == nil {
					continue
				}
				st, err := tableStepIn(p, f, filename, fd, gaveUp, seq)
				if err != nil {
					return nil, err
				}
				if st != nil {
					return st, nil
				}
				st, err = paramExplodeStep(p, f, filename, fd, gaveUp, seq)
				if err != nil {
					return nil, err
				}
				if st != nil {
					return st, nil
				}
				st, err = ptrAliasStep(p, f, filename, fd, gaveUp)
				if err != nil {
					return nil, err
				}
				if st != nil {
					return st, nil
				}
				st, err = sroaStep(p, f, filename, fd, gaveUp, seq)
				if err != nil {
					return nil, err
				}
				if st != nil {
					return st, nil
				}
			}
		}
	}
	return nil, nil
}

func hasTableLoops(pkgs []*packages.Package) bool {
	seq := 0
	st, _ := findTableStep(pkgs, map[string]bool{}, &seq)
	return st != nil
}

// sroaStep: a local variable of an anonymous (or function-local) struct type that is only ever used field by field
// (`var t struct{A, B T}; t.A.Mul(…)`) is a group of independent variables; it is replaced by one variable per field.
func sroaStep(p *packages.Package, file *ast.File, filename string, fd *ast.FuncDecl, gaveUp map[string]bool, seq *int) (*tableStep, error) {
	info := p.TypesInfo
	fset := p.Fset
	key := FuncKey(p.PkgPath, fd)
	type cand struct {
		stmt ast.Stmt
		name *ast.Ident
		lit  *ast.CompositeLit // t := T{f: v, …}; nil for var t T
	}
	var cands []cand
	ast.Inspect(fd.Body, func(n ast.Node) bool {
		switch x := n.(type) {
		case *ast.DeclStmt:
			if gd, isGD := x.Decl.(*ast.GenDecl); isGD && gd.Tok == token.VAR && len(gd.Specs) == 1 {
				if vs := gd.Specs[0].(*ast.ValueSpec); len(vs.Names) == 1 && len(vs.Values) == 0 && vs.Type != nil {
					cands = append(cands, cand{x, vs.Names[0], nil})
				}
			}
		case *ast.AssignStmt:
			if x.Tok == token.DEFINE && len(x.Lhs) == 1 && len(x.Rhs) == 1 {
				if id, isID := x.Lhs[0].(*ast.Ident); isID {
					if lit, isLit := x.Rhs[0].(*ast.CompositeLit); isLit {
						cands = append(cands, cand{x, id, lit})
					}
				}
			}
		}
		return true
	})
	sc := &spliceCtx{fset: fset, callerPkg: p.Types, callerInfo: info, callerFile: file}
	for ci, cd := range cands {
		site := fmt.Sprintf("%s>struct-local#%d", key, ci)
		if gaveUp[site] {
			continue
		}
		ds := cd.stmt
		obj := info.Defs[cd.name]
		if obj == nil || cd.name.Name == "_" {
			continue
		}
		if _, inBlock := enclosingList(fd, ds); !inBlock {
			continue
		}
		st, isStruct := obj.Type().Underlying().(*types.Struct)
		if !isStruct {
			continue
		}
		// only grouping types: written in place, declared inside this function, or a package-level struct type that
		// did not exist when the tables were frozen
		if nt, isNamed := obj.Type().(*types.Named); isNamed {
			tn := nt.Obj()
			local := tn.Pos() >= fd.Body.Pos() && tn.Pos() <= fd.Body.End()
			newType := tn.Pkg() == p.Types && len(invKeys) > 0 && !invKeys["type:"+p.PkgPath+"."+tn.Name()]
			if !(local && nt.NumMethods() == 0) && !newType {
				continue
			}
		}
		// a literal must be keyed field by field
		if cd.lit != nil {
			okLit := true
			for _, e := range cd.lit.Elts {
				kv, isKV := e.(*ast.KeyValueExpr)
				if !isKV {
					okLit = false
					break
				}
				if _, isID := kv.Key.(*ast.Ident); !isID {
					okLit = false
					break
				}
			}
			if !okLit {
				continue
			}
		}
		okFields := st.NumFields() > 0
		for i := 0; i < st.NumFields(); i++ {
			if st.Field(i).Embedded() || st.Field(i).Name() == "_" {
				okFields = false
			}
		}
		if !okFields {
			continue
		}
		// every use is t.f for a direct field f
		parent := map[ast.Node]ast.Node{}
		var stack []ast.Node
		ast.Inspect(fd.Body, func(n ast.Node) bool {
			if n == nil {
				stack = stack[:len(stack)-1]
				return true
			}
			if len(stack) > 0 {
				parent[n] = stack[len(stack)-1]
			}
			stack = append(stack, n)
			return true
		})
		var edits []textEdit
		fieldwise := true
		uses := 0
		*seq++
		prefix := fmt.Sprintf("_sroa%d_", *seq)
		ast.Inspect(fd.Body, func(n ast.Node) bool {
			id, ok := n.(*ast.Ident)
			if !ok || info.Uses[id] != obj {
				return true
			}
			uses++
			par := parent[id]
			for {
				if pe, isParen := par.(*ast.ParenExpr); isParen {
					par = parent[pe]
					continue
				}
				break
			}
			se, isSel := par.(*ast.SelectorExpr)
			if !isSel || ast.Unparen(se.X) != ast.Expr(id) {
				fieldwise = false
				return true
			}
			sel := info.Selections[se]
			if sel == nil || sel.Kind() != types.FieldVal || len(sel.Index()) != 1 {
				fieldwise = false
				return true
			}
			edits = append(edits, textEdit{fset.Position(se.Pos()).Offset, fset.Position(se.End()).Offset, prefix + se.Sel.Name})
			return true
		})
		if !fieldwise || uses == 0 {
			continue
		}
		src, err := os.ReadFile(filename)
		if err != nil {
			return nil, err
		}
		// one variable per field, initialised in the order the literal evaluates its values (then the zero ones)
		var decls []string
		okT := true
		declare := func(f *types.Var, val ast.Expr) {
			ts, err := sc.typeString(f.Type())
			if err != nil {
				okT = false
				return
			}
			n := prefix + f.Name()
			if val != nil {
				decls = append(decls, fmt.Sprintf("var %s %s = %s\n_ = %s", n, ts, srcOf(fset, src, val), n))
			} else {
				decls = append(decls, fmt.Sprintf("var %s %s\n_ = %s", n, ts, n))
			}
		}
		done := map[string]bool{}
		if cd.lit != nil {
			for _, e := range cd.lit.Elts {
				kv := e.(*ast.KeyValueExpr)
				name := kv.Key.(*ast.Ident).Name
				for i := 0; i < st.NumFields(); i++ {
					if st.Field(i).Name() == name {
						declare(st.Field(i), kv.Value)
						done[name] = true
					}
				}
			}
		}
		for i := 0; i < st.NumFields(); i++ {
			if !done[st.Field(i).Name()] {
				declare(st.Field(i), nil)
			}
		}
		if !okT {
			gaveUp[site] = true
			continue
		}
		edits = append(edits, textEdit{fset.Position(ds.Pos()).Offset, fset.Position(ds.End()).Offset, strings.Join(decls, "\n")})
		return &tableStep{filename, []byte(applyEdits(src, 0, edits)), site, "fields of a local struct split"}, nil
	}
	return nil, nil
}

// ptrAliasStep: `p := &x` for a local variable x, with p never reassigned and only used as the base of field
// selections (p.f), is another name for x: the binding is removed and p.f becomes x.f. (This is what a pointer
// receiver looks like after its method has been inlined.)
func ptrAliasStep(p *packages.Package, file *ast.File, filename string, fd *ast.FuncDecl, gaveUp map[string]bool) (*tableStep, error) {
	info := p.TypesInfo
	fset := p.Fset
	key := FuncKey(p.PkgPath, fd)
	parent := map[ast.Node]ast.Node{}
	var stack []ast.Node
	ast.Inspect(fd.Body, func(n ast.Node) bool {
		if n == nil {
			stack = stack[:len(stack)-1]
			return true
		}
		if len(stack) > 0 {
			parent[n] = stack[len(stack)-1]
		}
		stack = append(stack, n)
		return true
	})
	var ff *funcFacts
	ord := 0
	var step *tableStep
	var stepErr error
	ast.Inspect(fd.Body, func(n ast.Node) bool {
		as, ok := n.(*ast.AssignStmt)
		if !ok || step != nil || stepErr != nil || as.Tok != token.DEFINE || len(as.Lhs) != len(as.Rhs) {
			return true
		}
		for li := range as.Lhs {
			pid, isID := as.Lhs[li].(*ast.Ident)
			ue, isU := as.Rhs[li].(*ast.UnaryExpr)
			if !isID || !isU || ue.Op != token.AND || pid.Name == "_" {
				continue
			}
			xid, isX := ast.Unparen(ue.X).(*ast.Ident)
			if !isX {
				continue
			}
			ord++
			site := fmt.Sprintf("%s>ptr-alias#%d", key, ord)
			if gaveUp[site] {
				continue
			}
			pobj, _ := info.Defs[pid].(*types.Var)
			xobj, _ := info.Uses[xid].(*types.Var)
			if pobj == nil || xobj == nil || xobj.IsField() || xobj.Pkg() == nil || xobj.Parent() == xobj.Pkg().Scope() {
				continue
			}
			if _, isStruct := xobj.Type().Underlying().(*types.Struct); !isStruct {
				continue
			}
			if ff == nil {
				ff = factsOf(info, fd)
			}
			if ff.assigns[pobj] != 1 || ff.addrOf[pobj] {
				continue
			}
			var edits []textEdit
			good := true
			ast.Inspect(fd.Body, func(m ast.Node) bool {
				u, isU := m.(*ast.Ident)
				if !isU || info.Uses[u] != types.Object(pobj) {
					return true
				}
				par := parent[u]
				// `_ = p` markers go away with the binding
				if a2, isAs := par.(*ast.AssignStmt); isAs && len(a2.Lhs) == 1 && len(a2.Rhs) == 1 && a2.Rhs[0] == ast.Expr(u) {
					if b, isB := a2.Lhs[0].(*ast.Ident); isB && b.Name == "_" {
						edits = append(edits, textEdit{fset.Position(a2.Pos()).Offset, fset.Position(a2.End()).Offset, ""})
						return true
					}
				}
				se, isSel := par.(*ast.SelectorExpr)
				if !isSel || se.X != ast.Expr(u) {
					good = false
					return true
				}
				if sel := info.Selections[se]; sel == nil || sel.Kind() != types.FieldVal {
					good = false
					return true
				}
				// x must mean the same variable here
				if u.Name != xid.Name {
					inner := p.Types.Scope().Innermost(u.Pos())
					if inner == nil {
						good = false
						return true
					}
					if _, o := inner.LookupParent(xid.Name, u.Pos()); o != types.Object(xobj) {
						good = false
						return true
					}
					edits = append(edits, textEdit{fset.Position(u.Pos()).Offset, fset.Position(u.End()).Offset, xid.Name})
				} else {
					// same name: the use must not sit under yet another declaration of that name
					inner := p.Types.Scope().Innermost(u.Pos())
					if inner == nil {
						good = false
						return true
					}
					if _, o := inner.LookupParent(u.Name, u.Pos()); o != types.Object(pobj) {
						good = false
					}
				}
				return true
			})
			if !good {
				gaveUp[site] = true
				continue
			}
			src, err := os.ReadFile(filename)
			if err != nil {
				stepErr = err
				return false
			}
			// drop the pair from the definition
			if len(as.Lhs) == 1 {
				edits = append(edits, textEdit{fset.Position(as.Pos()).Offset, fset.Position(as.End()).Offset, ""})
			} else {
				var ls, rs []string
				for k := range as.Lhs {
					if k != li {
						ls = append(ls, srcOf(fset, src, as.Lhs[k]))
						rs = append(rs, srcOf(fset, src, as.Rhs[k]))
					}
				}
				// the remaining names may all exist already in this scope only if they were all new: keep :=
				edits = append(edits, textEdit{fset.Position(as.Pos()).Offset, fset.Position(as.End()).Offset, strings.Join(ls, ", ") + " := " + strings.Join(rs, ", ")})
			}
			step = &tableStep{filename, []byte(applyEdits(src, 0, edits)), site, "pointer to a local struct replaced by the struct"}
			return false
		}
		return true
	})
	return step, stepErr
}

// paramExplodeStep: `go func(r span) { … r.start … r.end … }(x)` — a function literal that is invoked where it is
// written, with a parameter of a grouping struct type that its body only uses field by field, and an argument that is a
// plain local variable: the parameter becomes one parameter per field and the argument x.start, x.end. (The local x
// is then split by sroaStep.)
func paramExplodeStep(p *packages.Package, file *ast.File, filename string, fd *ast.FuncDecl, gaveUp map[string]bool, seq *int) (*tableStep, error) {
	info := p.TypesInfo
	fset := p.Fset
	key := FuncKey(p.PkgPath, fd)
	sc := &spliceCtx{fset: fset, callerPkg: p.Types, callerInfo: info, callerFile: file}
	ord := 0
	var step *tableStep
	var stepErr error
	ast.Inspect(fd.Body, func(n ast.Node) bool {
		call, ok := n.(*ast.CallExpr)
		if !ok || step != nil || stepErr != nil {
			return true
		}
		lit, isLit := ast.Unparen(call.Fun).(*ast.FuncLit)
		if !isLit || lit.Type.Params == nil || call.Ellipsis.IsValid() {
			return true
		}
		// positional parameters
		ai := 0
		for _, f := range lit.Type.Params.List {
			names := f.Names
			if len(names) == 0 {
				ai++
				continue
			}
			for _, nm := range names {
				argIdx := ai
				ai++
				if len(names) != 1 || argIdx >= len(call.Args) {
					continue // only `name T` fields of their own are rewritten
				}
				ord++
				site := fmt.Sprintf("%s>struct-param#%d", key, ord)
				if gaveUp[site] {
					continue
				}
				pobj, _ := info.Defs[nm].(*types.Var)
				if pobj == nil || nm.Name == "_" {
					continue
				}
				st, isStruct := pobj.Type().Underlying().(*types.Struct)
				if !isStruct || st.NumFields() == 0 {
					continue
				}
				if nt, isNamed := pobj.Type().(*types.Named); isNamed {
					tn := nt.Obj()
					local := tn.Pos() >= fd.Body.Pos() && tn.Pos() <= fd.Body.End()
					newType := tn.Pkg() == p.Types && len(invKeys) > 0 && !invKeys["type:"+p.PkgPath+"."+tn.Name()]
					if !(local && nt.NumMethods() == 0) && !newType {
						continue
					}
				}
				okFields := true
				for i := 0; i < st.NumFields(); i++ {
					if st.Field(i).Embedded() || st.Field(i).Name() == "_" {
						okFields = false
					}
				}
				argID, isID := ast.Unparen(call.Args[argIdx]).(*ast.Ident)
				if !okFields || !isID {
					continue
				}
				if av, isVar := info.Uses[argID].(*types.Var); !isVar || av.IsField() || av.Pkg() == nil || av.Parent() == av.Pkg().Scope() {
					continue
				}
				// the body uses the parameter only as p.f
				parent := map[ast.Node]ast.Node{}
				var stack []ast.Node
				ast.Inspect(lit.Body, func(m ast.Node) bool {
					if m == nil {
						stack = stack[:len(stack)-1]
						return true
					}
					if len(stack) > 0 {
						parent[m] = stack[len(stack)-1]
					}
					stack = append(stack, m)
					return true
				})
				*seq++
				prefix := fmt.Sprintf("_pe%d_", *seq)
				var edits []textEdit
				fieldwise := true
				ast.Inspect(lit.Body, func(m ast.Node) bool {
					id, isI := m.(*ast.Ident)
					if !isI || info.Uses[id] != types.Object(pobj) {
						return true
					}
					se, isSel := parent[id].(*ast.SelectorExpr)
					if !isSel || se.X != ast.Expr(id) {
						fieldwise = false
						return true
					}
					if sel := info.Selections[se]; sel == nil || sel.Kind() != types.FieldVal || len(sel.Index()) != 1 {
						fieldwise = false
						return true
					}
					edits = append(edits, textEdit{fset.Position(se.Pos()).Offset, fset.Position(se.End()).Offset, prefix + se.Sel.Name})
					return true
				})
				if !fieldwise {
					continue
				}
				var params, args []string
				okT := true
				for i := 0; i < st.NumFields(); i++ {
					ts, err := sc.typeString(st.Field(i).Type())
					if err != nil {
						okT = false
						break
					}
					params = append(params, prefix+st.Field(i).Name()+" "+ts)
					args = append(args, argID.Name+"."+st.Field(i).Name())
				}
				if !okT {
					gaveUp[site] = true
					continue
				}
				src, err := os.ReadFile(filename)
				if err != nil {
					stepErr = err
					return false
				}
				edits = append(edits, textEdit{fset.Position(f.Pos()).Offset, fset.Position(f.End()).Offset, strings.Join(params, ", ")})
				edits = append(edits, textEdit{fset.Position(call.Args[argIdx].Pos()).Offset, fset.Position(call.Args[argIdx].End()).Offset, strings.Join(args, ", ")})
				step = &tableStep{filename, []byte(applyEdits(src, 0, edits)), site, "struct parameter of a literal passed field by field"}
				return false
			}
		}
		return true
	})
	return step, stepErr
}

// enclosingList: the statement list that directly holds stmt.
func enclosingList(fd *ast.FuncDecl, stmt ast.Stmt) (ast.Node, bool) {
	var holder ast.Node
	ast.Inspect(fd.Body, func(n ast.Node) bool {
		var list []ast.Stmt
		switch b := n.(type) {
		case *ast.BlockStmt:
			list = b.List
		case *ast.CaseClause:
			list = b.Body
		case *ast.CommClause:
			list = b.Body
		}
		for _, s := range list {
			if s == stmt {
				holder = n
			}
		}
		return true
	})
	return holder, holder != nil
}

func srcOf(fset *token.FileSet, src []byte, n ast.Node) string {
	return string(src[fset.Position(n.Pos()).Offset:fset.Position(n.End()).Offset])
}

func tableStepIn(p *packages.Package, file *ast.File, filename string, fd *ast.FuncDecl, gaveUp map[string]bool, seq *int) (*tableStep, error) {
	info := p.TypesInfo
	fset := p.Fset
	var src []byte
	read := func() error {
		if src != nil {
			return nil
		}
		b, err := os.ReadFile(filename)
		src = b
		return err
	}
	// statement lists and parents
	parent := map[ast.Node]ast.Node{}
	var stack []ast.Node
	ast.Inspect(fd, func(n ast.Node) bool {
		if n == nil {
			stack = stack[:len(stack)-1]
			return true
		}
		if len(stack) > 0 {
			parent[n] = stack[len(stack)-1]
		}
		stack = append(stack, n)
		return true
	})
	inList := func(s ast.Stmt) bool {
		switch b := parent[s].(type) {
		case *ast.BlockStmt:
			return true
		case *ast.CaseClause, *ast.CommClause:
			_ = b
			return true
		}
		return false
	}
	var ranges []*ast.RangeStmt
	ast.Inspect(fd.Body, func(n ast.Node) bool {
		if rs, ok := n.(*ast.RangeStmt); ok {
			ranges = append(ranges, rs)
		}
		return true
	})
	key := FuncKey(p.PkgPath, fd)
	sc := &spliceCtx{fset: fset, callerPkg: p.Types, callerInfo: info, callerFile: file}
	var ff *funcFacts
	for ri, rs := range ranges {
		site := fmt.Sprintf("%s>table-loop#%d", key, ri)
		if gaveUp[site] {
			continue
		}
		if rs.Tok != token.DEFINE && (rs.Key != nil || rs.Value != nil) {
			continue
		}
		if _, labelled := parent[rs].(*ast.LabeledStmt); labelled {
			continue
		}
		// --- bind: a literal ranged over directly
		if lit, isLit := ast.Unparen(rs.X).(*ast.CompositeLit); isLit {
			if tableLit(info, lit) == nil || !inList(rs) {
				continue
			}
			if err := read(); err != nil {
				return nil, err
			}
			*seq++
			name := fmt.Sprintf("_tbl%d", *seq)
			from, to := fset.Position(rs.Pos()).Offset, fset.Position(rs.End()).Offset
			xs, xe := fset.Position(rs.X.Pos()).Offset, fset.Position(rs.X.End()).Offset
			text := "{\n" + name + " := " + string(src[xs:xe]) + "\n" + string(src[from:xs]) + name + string(src[xe:to]) + "\n}"
			out := string(src[:from]) + text + string(src[to:])
			return &tableStep{filename, []byte(out), site, "bind"}, nil
		}
		id, isID := ast.Unparen(rs.X).(*ast.Ident)
		if !isID {
			continue
		}
		T, _ := info.Uses[id].(*types.Var)
		if T == nil || T.Parent() == nil || T.Pkg() == nil || T.Parent() == T.Pkg().Scope() {
			continue
		}
		// definition of T: T := LIT or var T = LIT, once, in this function
		var ti *tableInfo
		nDefs := 0
		ast.Inspect(fd.Body, func(n ast.Node) bool {
			switch x := n.(type) {
			case *ast.AssignStmt:
				for k, l := range x.Lhs {
					lid, ok := ast.Unparen(l).(*ast.Ident)
					if !ok || (info.Defs[lid] != T && info.Uses[lid] != T) {
						continue
					}
					nDefs++
					if x.Tok == token.DEFINE && len(x.Lhs) == 1 && len(x.Rhs) == 1 && k == 0 {
						if lit, isLit := ast.Unparen(x.Rhs[0]).(*ast.CompositeLit); isLit {
							if t := tableLit(info, lit); t != nil {
								t.defStmt, t.obj = x, T
								ti = t
							}
						}
					}
				}
			case *ast.DeclStmt:
				gd, ok := x.Decl.(*ast.GenDecl)
				if !ok || gd.Tok != token.VAR {
					return true
				}
				for _, sp := range gd.Specs {
					vs := sp.(*ast.ValueSpec)
					for _, nm := range vs.Names {
						if info.Defs[nm] != T {
							continue
						}
						nDefs++
						if len(gd.Specs) == 1 && len(vs.Names) == 1 && len(vs.Values) == 1 {
							if lit, isLit := ast.Unparen(vs.Values[0]).(*ast.CompositeLit); isLit {
								if t := tableLit(info, lit); t != nil {
									t.defStmt, t.obj = x, T
									ti = t
								}
							}
						}
					}
				}
			}
			return true
		})
		if ti == nil || nDefs != 1 || !inList(ti.defStmt) {
			continue
		}
		if ff == nil {
			ff = factsOf(info, fd)
		}
		if ff.addrOf[T] {
			continue
		}
		// every use of T: range operand, len/cap argument, or T[k] with k the key of an enclosing range over T
		usesOK := true
		otherUses := 0 // uses of T apart from this loop's range operand, T[key] inside this loop, and `_ = T`
		ast.Inspect(fd.Body, func(n ast.Node) bool {
			uid, ok := n.(*ast.Ident)
			if !ok || info.Uses[uid] != T {
				return true
			}
			inThis := uid.Pos() >= rs.Body.Pos() && uid.End() <= rs.Body.End()
			blank := false
			if as, isAs := parent[uid].(*ast.AssignStmt); isAs && len(as.Lhs) == 1 {
				if b, isB := as.Lhs[0].(*ast.Ident); isB && b.Name == "_" {
					blank = true
				}
			}
			if !(parent[uid] == ast.Node(rs) && rs.X == ast.Expr(uid)) && !inThis && !blank {
				otherUses++
			}
			if _, isIdx := parent[uid].(*ast.IndexExpr); inThis && !isIdx {
				otherUses++ // len(T) and the like inside the body keep T alive
			}
			switch par := parent[uid].(type) {
			case *ast.RangeStmt:
				if par.X == ast.Expr(uid) {
					return true
				}
			case *ast.CallExpr:
				if fid, isF := par.Fun.(*ast.Ident); isF && (fid.Name == "len" || fid.Name == "cap") {
					if _, isB := info.Uses[fid].(*types.Builtin); isB {
						return true
					}
				}
			case *ast.IndexExpr:
				if par.X == ast.Expr(uid) {
					if kid, isK := ast.Unparen(par.Index).(*ast.Ident); isK {
						for a := parent[par]; a != nil; a = parent[a] {
							if ors, isR := a.(*ast.RangeStmt); isR && ors.Key != nil {
								if okid, isI := ors.Key.(*ast.Ident); isI && info.Defs[okid] != nil && info.Defs[okid] == info.Uses[kid] {
									if xid, isX := ast.Unparen(ors.X).(*ast.Ident); isX && info.Uses[xid] == T {
										return true
									}
								}
							}
						}
					}
				}
			case *ast.AssignStmt:
				// `_ = T` left by an earlier unroll
				if len(par.Lhs) == 1 && len(par.Rhs) == 1 && par.Rhs[0] == ast.Expr(uid) {
					if b, isB := par.Lhs[0].(*ast.Ident); isB && b.Name == "_" {
						return true
					}
				}
			}
			usesOK = false
			return true
		})
		if !usesOK {
			continue
		}
		// --- body conditions
		bodyOK := true
		var walk func(n ast.Node, inLoop, inSwitch bool)
		walk = func(n ast.Node, inLoop, inSwitch bool) {
			ast.Inspect(n, func(m ast.Node) bool {
				if m == nil || m == n {
					return true
				}
				switch x := m.(type) {
				case *ast.LabeledStmt:
					bodyOK = false
					return false
				case *ast.FuncLit:
					return false // its own break/continue/return are its own
				case *ast.ForStmt:
					walk(x.Body, true, true)
					return false
				case *ast.RangeStmt:
					walk(x.Body, true, true)
					return false
				case *ast.SwitchStmt:
					walk(x.Body, inLoop, true)
					return false
				case *ast.TypeSwitchStmt:
					walk(x.Body, inLoop, true)
					return false
				case *ast.SelectStmt:
					walk(x.Body, inLoop, true)
					return false
				case *ast.BranchStmt:
					switch {
					case x.Label != nil, x.Tok == token.GOTO:
						bodyOK = false
					case x.Tok == token.CONTINUE && !inLoop:
						bodyOK = false
					case x.Tok == token.BREAK && !inSwitch:
						bodyOK = false
					}
				}
				return true
			})
		}
		walk(rs.Body, false, false)
		if !bodyOK || !inList(rs) {
			gaveUp[site] = true
			continue
		}
		var keyObj, valObj types.Object
		if kid, ok := rs.Key.(*ast.Ident); ok && kid.Name != "_" {
			keyObj = info.Defs[kid]
		}
		if vid, ok := rs.Value.(*ast.Ident); ok && vid.Name != "_" {
			valObj = info.Defs[vid]
		}
		captured := false
		ast.Inspect(rs.Body, func(n ast.Node) bool {
			if fl, isFL := n.(*ast.FuncLit); isFL {
				ast.Inspect(fl, func(m ast.Node) bool {
					if id, isID := m.(*ast.Ident); isID && info.Uses[id] != nil && (info.Uses[id] == keyObj || info.Uses[id] == valObj) {
						captured = true // one variable per loop before Go 1.22: a closure that outlives the iteration sees later values
					}
					return true
				})
				return false
			}
			return true
		})
		if captured || (keyObj != nil && (ff.addrOf[keyObj] || ff.assigns[keyObj] != 2)) || (valObj != nil && ff.addrOf[valObj]) {
			gaveUp[site] = true
			continue
		}
		// --- substitution targets in the body
		type subst struct {
			node  ast.Node
			field string // "" for a plain entry
		}
		var substs []subst
		ok := true
		entryRef := func(e ast.Expr) bool { // e denotes "the current entry": v, or T[key]
			e = ast.Unparen(e)
			if eid, isI := e.(*ast.Ident); isI {
				return valObj != nil && info.Uses[eid] == valObj
			}
			if ix, isIx := e.(*ast.IndexExpr); isIx {
				xid, isX := ast.Unparen(ix.X).(*ast.Ident)
				kid, isK := ast.Unparen(ix.Index).(*ast.Ident)
				return isX && isK && info.Uses[xid] == T && keyObj != nil && info.Uses[kid] == keyObj
			}
			return false
		}
		written := func(n ast.Node) bool { // n is assigned, incremented or has its address taken
			for c, a := n, parent[n]; a != nil; c, a = a, parent[a] {
				switch x := a.(type) {
				case *ast.ParenExpr:
					continue
				case *ast.AssignStmt:
					for _, l := range x.Lhs {
						if l == c {
							return true
						}
					}
				case *ast.IncDecStmt:
					return x.X == c
				case *ast.UnaryExpr:
					return x.Op == token.AND && x.X == c
				}
				return false
			}
			return false
		}
		ast.Inspect(rs.Body, func(n ast.Node) bool {
			switch x := n.(type) {
			case *ast.SelectorExpr:
				if ti.st != nil && entryRef(x.X) {
					if written(x) {
						ok = false
					}
					substs = append(substs, subst{x, x.Sel.Name})
					return false
				}
			case *ast.IndexExpr:
				if entryRef(x) {
					if ti.st != nil || written(x) {
						ok = false // a whole struct entry, or a write into the table
					}
					substs = append(substs, subst{x, ""})
					return false
				}
			case *ast.Ident:
				if valObj != nil && info.Uses[x] == valObj && ti.st != nil {
					ok = false // the struct entry used as a whole
				}
			}
			return true
		})
		if !ok {
			gaveUp[site] = true
			continue
		}
		// entries needed by the body (struct case), or all plain entries
		needHoist := []ast.Expr{}
		seenExpr := map[ast.Expr]bool{}
		want := func(e ast.Expr) {
			if e != nil && !ff.stable(e) && !seenExpr[e] {
				seenExpr[e] = true
				needHoist = append(needHoist, e)
			}
		}
		missing := false
		if ti.st != nil {
			for _, s := range substs {
				for k := 0; k < ti.n; k++ {
					e, has := ti.entries[k][s.field]
					if !has {
						missing = true
					}
					want(e)
				}
			}
		} else if valObj != nil || len(substs) > 0 {
			for _, e := range ti.plain {
				want(e)
			}
		}
		if missing {
			gaveUp[site] = true
			continue
		}
		if err := read(); err != nil {
			return nil, err
		}
		// --- hoist: bind the unstable entries to variables just before the table's definition
		if len(needHoist) > 0 {
			hsite := site + ">hoist"
			if gaveUp[hsite] {
				continue
			}
			sort.Slice(needHoist, func(a, b int) bool { return needHoist[a].Pos() < needHoist[b].Pos() })
			*seq++
			var decls []string
			var edits []textEdit
			okT := true
			for hi, e := range needHoist {
				t := info.TypeOf(e)
				if t == nil {
					okT = false
					break
				}
				if b, isB := t.(*types.Basic); isB && b.Info()&types.IsUntyped != 0 {
					t = types.Default(t)
				}
				// the declared type of the slot the expression initialises
				if ti.st != nil {
					for k := 0; k < ti.n; k++ {
						for fname, fe := range ti.entries[k] {
							if fe == e {
								for fi := 0; fi < ti.st.NumFields(); fi++ {
									if ti.st.Field(fi).Name() == fname {
										t = ti.st.Field(fi).Type()
									}
								}
							}
						}
					}
				} else {
					t = ti.elemT
				}
				ts, err := sc.typeString(t)
				if err != nil {
					okT = false
					break
				}
				name := fmt.Sprintf("_tbl%d_%d", *seq, hi)
				if _, isFL := ast.Unparen(e).(*ast.FuncLit); isFL {
					// a closure variable in the form the closure inliner knows
					decls = append(decls, fmt.Sprintf("%s := %s\n_ = %s", name, srcOf(fset, src, e), name))
				} else {
					decls = append(decls, fmt.Sprintf("var %s %s = %s\n_ = %s", name, ts, srcOf(fset, src, e), name))
				}
				edits = append(edits, textEdit{fset.Position(e.Pos()).Offset, fset.Position(e.End()).Offset, name})
			}
			if !okT {
				gaveUp[hsite] = true
				gaveUp[site] = true
				continue
			}
			at := fset.Position(ti.defStmt.Pos()).Offset
			edits = append(edits, textEdit{at, at, strings.Join(decls, "\n") + "\n"})
			return &tableStep{filename, []byte(applyEdits(src, 0, edits)), hsite, "hoist"}, nil
		}
		// --- unroll
		ets := ""
		if valObj != nil && ti.st == nil {
			s, err := sc.typeString(ti.elemT)
			if err != nil {
				gaveUp[site] = true
				continue
			}
			ets = s
		}
		bodyFrom, bodyTo := fset.Position(rs.Body.Lbrace).Offset+1, fset.Position(rs.Body.Rbrace).Offset
		var sb strings.Builder
		convFail := false
		sb.WriteString("{\n")
		for k := 0; k < ti.n; k++ {
			sb.WriteString("{\n")
			if keyObj != nil {
				fmt.Fprintf(&sb, "%s := %d\n_ = %s\n", keyObj.Name(), k, keyObj.Name())
			}
			if valObj != nil && ti.st == nil {
				fmt.Fprintf(&sb, "var %s %s = %s\n_ = %s\n", valObj.Name(), ets, srcOf(fset, src, ti.plain[k]), valObj.Name())
			}
			var edits []textEdit
			for _, s := range substs {
				var e ast.Expr
				if s.field != "" {
					e = ti.entries[k][s.field]
				} else {
					e = ti.plain[k]
				}
				text := "(" + srcOf(fset, src, e) + ")"
				if _, isID := ast.Unparen(e).(*ast.Ident); isID {
					text = srcOf(fset, src, e)
				}
				if tv, isTV := info.Types[e]; isTV && tv.Value != nil {
					// a constant keeps the type of the slot it initialised
					slot := ti.elemT
					if s.field != "" {
						for fi := 0; fi < ti.st.NumFields(); fi++ {
							if ti.st.Field(fi).Name() == s.field {
								slot = ti.st.Field(fi).Type()
							}
						}
					}
					ts, err := sc.typeString(slot)
					if err != nil {
						convFail = true
					}
					text = "(" + ts + ")" + text
				}
				edits = append(edits, textEdit{fset.Position(s.node.Pos()).Offset, fset.Position(s.node.End()).Offset, text})
			}
			sb.WriteString(applyEdits(src[bodyFrom:bodyTo], bodyFrom, edits))
			sb.WriteString("\n}\n")
		}
		if convFail {
			gaveUp[site] = true
			continue
		}
		// a table nothing else uses, all of whose entries are effect-free, goes away with its last loop
		dropDef := otherUses == 0
		if dropDef {
			if ti.st != nil {
				for _, m := range ti.entries {
					for _, e := range m {
						if !ff.stable(e) {
							dropDef = false
						}
					}
				}
			} else {
				for _, e := range ti.plain {
					if !ff.stable(e) {
						dropDef = false
					}
				}
			}
		}
		if dropDef {
			sb.WriteString("}")
		} else {
			fmt.Fprintf(&sb, "_ = %s\n}", T.Name())
		}
		from, to := fset.Position(rs.Pos()).Offset, fset.Position(rs.End()).Offset
		edits := []textEdit{{from, to, sb.String()}}
		if dropDef {
			// earlier `_ = T` markers go as well
			ast.Inspect(fd.Body, func(n ast.Node) bool {
				if as, isAs := n.(*ast.AssignStmt); isAs && len(as.Lhs) == 1 && len(as.Rhs) == 1 && !(as.Pos() >= rs.Pos() && as.End() <= rs.End()) {
					if b, isB := as.Lhs[0].(*ast.Ident); isB && b.Name == "_" {
						if r, isR := as.Rhs[0].(*ast.Ident); isR && info.Uses[r] == T {
							edits = append(edits, textEdit{fset.Position(as.Pos()).Offset, fset.Position(as.End()).Offset, ""})
						}
					}
				}
				return true
			})
			edits = append(edits, textEdit{fset.Position(ti.defStmt.Pos()).Offset, fset.Position(ti.defStmt.End()).Offset, ""})
		}
		return &tableStep{filename, []byte(applyEdits(src, 0, edits)), site, "unroll"}, nil
	}
	return nil, nil
}
