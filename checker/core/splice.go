package core

// A statement-level inliner for calls the x/tools inliner can only replace by a function literal.
//
// When a call to a new helper is the whole right-hand side of a statement (x := f(a), x, err := f(a), f(a),
// return f(a), or the init of an if), the helper's body is spliced in as
//
//	var _r0 T0; var _r1 T1
//	_inlN:
//	for {
//		p1, p2 := a1, a2          // parameters bound once, in a scope of their own
//		... body, every `return e0, e1` rewritten to `{ _r0, _r1 = e0, e1; break _inlN }` ...
//		break _inlN
//	}
//	x, err := _r0, _r1
//
// The one-trip loop only provides a labelled scope to leave; it has no back edge. Control and data flow of the
// helper thus become part of the caller's, which is what the rules look at.

import (
	"fmt"
	"go/ast"
	"go/token"
	"go/types"
	"sort"
	"strings"
)

type spliceCtx struct {
	fset       *token.FileSet
	callerPkg  *types.Package
	callerInfo *types.Info
	callerFile *ast.File
	callerSrc  []byte
	calleeDecl *ast.FuncDecl // for a local closure: a synthetic declaration (Name = the variable, Type/Body = the literal's)
	closure    bool
	sig        *types.Signature // set for an immediately-invoked literal (no defining identifier)
	calleeInfo *types.Info
	calleeSrc  []byte
	calleeFile *ast.File
	seq        int
}

type textEdit struct {
	from, to int
	text     string
}

func applyEdits(src []byte, base int, edits []textEdit) string {
	sort.Slice(edits, func(i, j int) bool { return edits[i].from > edits[j].from })
	out := string(src)
	for _, e := range edits {
		out = out[:e.from-base] + e.text + out[e.to-base:]
	}
	return out
}

// enclosingStmt finds the statement whose direct operand is call, and the list that holds it.
func enclosingStmt(file *ast.File, call *ast.CallExpr) (stmt ast.Stmt, ifInit *ast.IfStmt) {
	var found ast.Stmt
	var inIf *ast.IfStmt
	ast.Inspect(file, func(n ast.Node) bool {
		switch s := n.(type) {
		case *ast.ExprStmt:
			if ast.Unparen(s.X) == ast.Expr(call) {
				found = s
			}
		case *ast.AssignStmt:
			if len(s.Rhs) == 1 && ast.Unparen(s.Rhs[0]) == ast.Expr(call) {
				found = s
			}
		case *ast.ReturnStmt:
			if len(s.Results) == 1 && ast.Unparen(s.Results[0]) == ast.Expr(call) {
				found = s
			}
		case *ast.IfStmt:
			if s.Init != nil {
				if as, ok := s.Init.(*ast.AssignStmt); ok && len(as.Rhs) == 1 && ast.Unparen(as.Rhs[0]) == ast.Expr(call) {
					inIf = s
				}
			}
		}
		return true
	})
	if inIf != nil {
		return inIf.Init, inIf
	}
	return found, nil
}

// inStmtList: stmt is an element of a block / case clause (so that it can be replaced by several statements).
func inStmtList(file *ast.File, stmt ast.Stmt) bool {
	ok := false
	ast.Inspect(file, func(n ast.Node) bool {
		var list []ast.Stmt
		switch b := n.(type) {
		case *ast.BlockStmt:
			list = b.List
		case *ast.CaseClause:
			list = b.Body
		case *ast.CommClause:
			list = b.Body
		}
		for _, s := range list {
			if s == stmt {
				ok = true
			}
		}
		return true
	})
	return ok
}

// splice returns the new content of the caller's file, or an error explaining why the call is left alone.
func (sc *spliceCtx) splice(call *ast.CallExpr) ([]byte, error) {
	fd := sc.calleeDecl
	if fd.Body == nil {
		return nil, fmt.Errorf("no body")
	}
	sig, okSig := sc.sig, sc.sig != nil
	if !okSig {
		if o := sc.calleeInfo.Defs[fd.Name]; o != nil {
			sig, okSig = o.Type().(*types.Signature)
		}
	}
	if !okSig {
		return nil, fmt.Errorf("not a function")
	}
	// a type-parameterised helper: the instance used at this call; its type parameters become local aliases
	var typeAliases []string
	if fd.Type.TypeParams != nil {
		id := calleeIdent(call)
		inst, okInst := sc.callerInfo.Instances[id]
		if id == nil || !okInst {
			return nil, fmt.Errorf("generic callee without a recorded instance")
		}
		isig, okI := inst.Type.(*types.Signature)
		if !okI {
			return nil, fmt.Errorf("generic callee: instance is not a function")
		}
		sig = isig
		k := 0
		for _, f := range fd.Type.TypeParams.List {
			for _, n := range f.Names {
				if k >= inst.TypeArgs.Len() {
					return nil, fmt.Errorf("generic callee: type argument count")
				}
				ts, err := sc.typeString(inst.TypeArgs.At(k))
				if err != nil {
					return nil, err
				}
				typeAliases = append(typeAliases, "type "+n.Name+" = "+ts)
				k++
			}
		}
	}
	if sig.Variadic() {
		return nil, fmt.Errorf("variadic")
	}
	// named results become locals of the spliced block; a bare return hands them over
	var namedResults []string
	if fd.Type.Results != nil {
		for _, f := range fd.Type.Results.List {
			for _, n := range f.Names {
				if n.Name == "_" {
					return nil, fmt.Errorf("blank named result")
				}
				namedResults = append(namedResults, n.Name)
			}
		}
	}
	bad := ""
	ast.Inspect(fd.Body, func(n ast.Node) bool {
		switch x := n.(type) {
		case *ast.DeferStmt:
			bad = "defer"
		case *ast.FuncLit:
			// returns inside literals are their own; but a literal capturing parameters is fine
			_ = x
		case *ast.CallExpr:
			if id, ok := x.Fun.(*ast.Ident); ok && id.Name == "recover" {
				bad = "recover"
			}
		}
		return true
	})
	if bad != "" {
		return nil, fmt.Errorf("uses %s", bad)
	}
	stmt, ifStmt := enclosingStmt(sc.callerFile, call)
	var hoistFrom ast.Stmt // the call is an operand inside this statement and is hoisted in front of it
	if stmt == nil {
		h, err := sc.hoistable(call)
		if err != nil {
			return nil, err
		}
		hoistFrom = h
	}
	outer := stmt
	if ifStmt != nil {
		outer = ifStmt
	}
	if hoistFrom != nil {
		outer = hoistFrom
	}
	if !inStmtList(sc.callerFile, outer) {
		return nil, fmt.Errorf("the statement is not in a statement list")
	}
	// parameter bindings
	var pnames, pargs []string
	addBinding := func(name string, argText string) {
		if name == "" || name == "_" {
			name = "_"
		}
		pnames = append(pnames, name)
		pargs = append(pargs, argText)
	}
	text := func(n ast.Node, src []byte, base func(token.Pos) int) string {
		return string(src[base(n.Pos()):base(n.End())])
	}
	cbase := func(p token.Pos) int { return sc.fset.Position(p).Offset }
	usedParams := map[string]bool{}
	ast.Inspect(fd.Body, func(n ast.Node) bool {
		if id, ok := n.(*ast.Ident); ok {
			usedParams[id.Name] = true
		}
		return true
	})
	if fd.Recv != nil && len(fd.Recv.List) == 1 {
		sel, ok := ast.Unparen(call.Fun).(*ast.SelectorExpr)
		if !ok {
			return nil, fmt.Errorf("method value call")
		}
		recvT := sig.Recv().Type()
		argT := sc.callerInfo.TypeOf(sel.X)
		if argT == nil {
			return nil, fmt.Errorf("receiver type unknown")
		}
		rtext := text(sel.X, sc.callerSrc, cbase)
		switch {
		case types.Identical(recvT, argT):
		case types.Identical(recvT, types.NewPointer(argT)):
			rtext = "&" + rtext
		default:
			if p, isPtr := argT.(*types.Pointer); isPtr && types.Identical(recvT, p.Elem()) {
				rtext = "*" + rtext
			} else {
				return nil, fmt.Errorf("receiver conversion")
			}
		}
		name := "_"
		if len(fd.Recv.List[0].Names) == 1 {
			name = fd.Recv.List[0].Names[0].Name
		}
		addBinding(name, rtext)
	}
	ai := 0
	for _, f := range fd.Type.Params.List {
		names := f.Names
		if len(names) == 0 {
			names = []*ast.Ident{{Name: "_"}}
		}
		for _, n := range names {
			if ai >= len(call.Args) {
				return nil, fmt.Errorf("argument count")
			}
			arg := call.Args[ai]
			ai++
			ptype := sc.calleeInfo.TypeOf(f.Type)
			atext := text(arg, sc.callerSrc, cbase)
			// keep the parameter's type (untyped constants, interface conversions)
			if at := sc.callerInfo.TypeOf(arg); at == nil || !types.Identical(at, ptype) {
				ts, err := sc.typeString(ptype)
				if err != nil {
					return nil, err
				}
				atext = "(" + ts + ")(" + atext + ")"
			}
			addBinding(n.Name, atext)
		}
	}
	if ai != len(call.Args) {
		return nil, fmt.Errorf("argument count")
	}
	// identifier capture: package-level names the body uses must mean the same at the call site
	var capErr error
	selNames := map[*ast.Ident]bool{} // x.Sel of a field or method selection: not looked up by scope
	ast.Inspect(fd.Body, func(n ast.Node) bool {
		if se, ok := n.(*ast.SelectorExpr); ok {
			if _, isSel := sc.calleeInfo.Selections[se]; isSel {
				selNames[se.Sel] = true
			}
		}
		return true
	})
	ast.Inspect(fd.Body, func(n ast.Node) bool {
		id, ok := n.(*ast.Ident)
		if !ok || capErr != nil || selNames[id] {
			return true
		}
		obj := sc.calleeInfo.Uses[id]
		if obj == nil {
			return true
		}
		if v, isVar := obj.(*types.Var); isVar && v.IsField() {
			return true // a field name (key of a struct literal): not looked up by scope
		}
		pkgLevel := obj.Parent() == types.Universe || (obj.Pkg() != nil && obj.Parent() == obj.Pkg().Scope())
		if _, isPkgName := obj.(*types.PkgName); isPkgName {
			// the same import must be visible under the same name in the caller's file
			inner := sc.callerPkg.Scope().Innermost(call.Pos())
			if inner == nil {
				capErr = fmt.Errorf("scope")
				return true
			}
			_, o := inner.LookupParent(id.Name, call.Pos())
			pn, isPN := o.(*types.PkgName)
			if !isPN || pn.Imported() != obj.(*types.PkgName).Imported() {
				capErr = fmt.Errorf("import %s is not visible at the call site", id.Name)
			}
			return true
		}
		if !pkgLevel {
			// a variable the closure captures from the enclosing function must be the same variable at the call site
			if sc.closure && (obj.Pos() < fd.Type.Pos() || obj.Pos() > fd.Body.End()) {
				inner := sc.callerPkg.Scope().Innermost(call.Pos())
				if inner == nil {
					capErr = fmt.Errorf("scope")
					return true
				}
				if _, o := inner.LookupParent(id.Name, call.Pos()); o != obj {
					capErr = fmt.Errorf("captured variable %s is shadowed at the call site", id.Name)
				}
			}
			return true
		}
		if obj.Pkg() != nil && obj.Pkg() != sc.callerPkg {
			return true // qualified identifier pkg.Name: decided by the package name, checked above
		}
		inner := sc.callerPkg.Scope().Innermost(call.Pos())
		if inner == nil {
			capErr = fmt.Errorf("scope")
			return true
		}
		if _, o := inner.LookupParent(id.Name, call.Pos()); o != obj {
			capErr = fmt.Errorf("%s is shadowed at the call site", id.Name)
		}
		return true
	})
	if capErr != nil {
		return nil, capErr
	}
	// results
	nres := sig.Results().Len()
	label := fmt.Sprintf("_inl%d", sc.seq)
	var rnames []string
	var decls []string
	for i := 0; i < nres; i++ {
		rn := fmt.Sprintf("_inl%d_r%d", sc.seq, i)
		rnames = append(rnames, rn)
		ts, err := sc.typeString(sig.Results().At(i).Type())
		if err != nil {
			return nil, err
		}
		decls = append(decls, fmt.Sprintf("var %s %s", rn, ts))
	}
	// rewrite the returns of the body (not those of nested literals)
	fbase := func(p token.Pos) int { return sc.fset.Position(p).Offset }
	var edits []textEdit
	var walk func(n ast.Node)
	walk = func(n ast.Node) {
		ast.Inspect(n, func(x ast.Node) bool {
			switch r := x.(type) {
			case *ast.FuncLit:
				return false
			case *ast.ReturnStmt:
				var repl string
				if len(r.Results) == 0 && len(namedResults) == nres && nres > 0 {
					repl = "{ " + strings.Join(rnames, ", ") + " = " + strings.Join(namedResults, ", ") + "; break " + label + " }"
				} else if len(r.Results) == 0 {
					repl = "break " + label
				} else {
					var rs []string
					for _, e := range r.Results {
						rs = append(rs, text(e, sc.calleeSrc, fbase))
					}
					repl = "{ " + strings.Join(rnames, ", ") + " = " + strings.Join(rs, ", ") + "; break " + label + " }"
				}
				edits = append(edits, textEdit{fbase(r.Pos()), fbase(r.End()), repl})
				return false
			}
			return true
		})
	}
	walk(fd.Body)
	bodyFrom, bodyTo := fbase(fd.Body.Lbrace)+1, fbase(fd.Body.Rbrace)
	body := applyEdits(sc.calleeSrc[bodyFrom:bodyTo], bodyFrom, edits)
	var b strings.Builder
	for _, d := range decls {
		b.WriteString(d + "\n")
	}
	b.WriteString(label + ":\nfor {\n")
	for _, ta := range typeAliases {
		b.WriteString(ta + "\n")
	}
	if len(namedResults) == nres {
		for i, n := range namedResults {
			ts, err := sc.typeString(sig.Results().At(i).Type())
			if err != nil {
				return nil, err
			}
			b.WriteString("var " + n + " " + ts + "\n_ = " + n + "\n")
		}
	}
	if len(pnames) > 0 {
		allBlank := true
		for _, n := range pnames {
			if n != "_" {
				allBlank = false
			}
		}
		if allBlank {
			b.WriteString(strings.Join(pnames, ", ") + " = " + strings.Join(pargs, ", ") + "\n")
		} else {
			b.WriteString(strings.Join(pnames, ", ") + " := " + strings.Join(pargs, ", ") + "\n")
			for _, n := range pnames {
				if n != "_" {
					b.WriteString("_ = " + n + "\n")
				}
			}
		}
	}
	b.WriteString(body)
	b.WriteString("\nbreak " + label + "\n}\n")
	// the statement that used the call
	rlist := strings.Join(rnames, ", ")
	var tail string
	switch s := stmt.(type) {
	case *ast.ExprStmt:
		if nres > 0 {
			tail = "_" + strings.Repeat(", _", nres-1) + " = " + rlist
		}
	case *ast.AssignStmt:
		var lhs []string
		for _, l := range s.Lhs {
			lhs = append(lhs, text(l, sc.callerSrc, cbase))
		}
		tail = strings.Join(lhs, ", ") + " " + s.Tok.String() + " " + rlist
	case *ast.ReturnStmt:
		tail = "return " + rlist
	}
	var repl string
	if hoistFrom != nil {
		if nres != 1 {
			return nil, fmt.Errorf("nested call with %d results", nres)
		}
		tmpv := fmt.Sprintf("_inl%d_v", sc.seq)
		st := string(sc.callerSrc[cbase(hoistFrom.Pos()):cbase(call.Pos())]) + tmpv + string(sc.callerSrc[cbase(call.End()):cbase(hoistFrom.End())])
		repl = b.String() + tmpv + " := " + rlist + "\n" + st
	} else if ifStmt != nil {
		// { spliced; if tail; cond { ... } else ... }
		rest := string(sc.callerSrc[cbase(ifStmt.Cond.Pos()):cbase(ifStmt.End())])
		repl = "{\n" + b.String() + "if " + tail + "; " + rest + "\n}"
	} else {
		repl = b.String() + tail
		if _, isRet := stmt.(*ast.ReturnStmt); !isRet && nres == 0 {
			repl = b.String()
		}
	}
	from, to := cbase(outer.Pos()), cbase(outer.End())
	out := string(sc.callerSrc[:from]) + repl + string(sc.callerSrc[to:])
	return []byte(out), nil
}

// hoistable: the innermost simple statement that contains call as an operand, provided that evaluating the call
// before the statement is the same as evaluating it in place (nothing with effects is evaluated before it, and it
// is not under a short-circuit operator or inside a function literal).
func (sc *spliceCtx) hoistable(call *ast.CallExpr) (ast.Stmt, error) {
	var stack []ast.Node
	var path []ast.Node
	ast.Inspect(sc.callerFile, func(n ast.Node) bool {
		if n == nil {
			stack = stack[:len(stack)-1]
			return true
		}
		stack = append(stack, n)
		if n == ast.Node(call) {
			path = append([]ast.Node(nil), stack...)
		}
		return true
	})
	if path == nil {
		return nil, fmt.Errorf("call not found")
	}
	var stmt ast.Stmt
	for i := len(path) - 2; i >= 0; i-- {
		switch x := path[i].(type) {
		case *ast.FuncLit:
			return nil, fmt.Errorf("the call is inside a function literal")
		case *ast.BinaryExpr:
			if (x.Op == token.LAND || x.Op == token.LOR) && x.Y.Pos() <= call.Pos() && call.End() <= x.Y.End() {
				return nil, fmt.Errorf("the call is evaluated conditionally")
			}
		case ast.Stmt:
			switch x.(type) {
			case *ast.AssignStmt, *ast.ExprStmt, *ast.ReturnStmt, *ast.DeclStmt, *ast.SendStmt:
				stmt = x
			case *ast.IfStmt:
				// the condition of an if without an init statement is evaluated once, before anything in the statement
				ifs := x.(*ast.IfStmt)
				if ifs.Init != nil || !(ifs.Cond.Pos() <= call.Pos() && call.End() <= ifs.Cond.End()) {
					return nil, fmt.Errorf("the call is nested in a statement that cannot take a hoisted operand")
				}
				stmt = x
			default:
				return nil, fmt.Errorf("the call is nested in a statement that cannot take a hoisted operand")
			}
		}
		if stmt != nil {
			break
		}
	}
	if stmt == nil {
		return nil, fmt.Errorf("no enclosing statement")
	}
	var err error
	ast.Inspect(stmt, func(n ast.Node) bool {
		if err != nil {
			return false
		}
		switch x := n.(type) {
		case *ast.CallExpr:
			if x == call || x.Pos() >= call.Pos() || x.End() >= call.End() {
				return true // the call itself, later operands, or an enclosing call (evaluated after its arguments)
			}
			if tv, ok := sc.callerInfo.Types[x.Fun]; ok && (tv.IsType() || tv.IsBuiltin()) {
				return true
			}
			err = fmt.Errorf("another call is evaluated before it in the same statement")
		case *ast.UnaryExpr:
			if x.Op == token.ARROW && x.Pos() < call.Pos() {
				err = fmt.Errorf("a channel receive is evaluated before it in the same statement")
			}
		}
		return true
	})
	if err != nil {
		return nil, err
	}
	return stmt, nil
}

func (sc *spliceCtx) typeString(t types.Type) (string, error) {
	var err error
	s := types.TypeString(t, func(p *types.Package) string {
		if p == sc.callerPkg {
			return ""
		}
		for _, imp := range sc.callerFile.Imports {
			path := strings.Trim(imp.Path.Value, "\"")
			if path == p.Path() {
				if imp.Name != nil {
					if imp.Name.Name == "." || imp.Name.Name == "_" {
						err = fmt.Errorf("dot/blank import of %s", path)
					}
					return imp.Name.Name
				}
				return p.Name()
			}
		}
		err = fmt.Errorf("package %s is not imported in the caller's file", p.Path())
		return p.Name()
	})
	return s, err
}

// spliceGo handles `go f(args)` / `defer f(args)`: the call becomes a call of a function literal with the callee's
// own parameter list and body, so that the arguments are still evaluated at the go/defer statement.
func (sc *spliceCtx) spliceGo(call *ast.CallExpr) ([]byte, error) {
	fd := sc.calleeDecl
	if fd.Body == nil {
		return nil, fmt.Errorf("no body")
	}
	sig, okSig := sc.sig, sc.sig != nil
	if !okSig {
		if o := sc.calleeInfo.Defs[fd.Name]; o != nil {
			sig, okSig = o.Type().(*types.Signature)
		}
	}
	if !okSig {
		return nil, fmt.Errorf("not a function")
	}
	if sig.Variadic() {
		return nil, fmt.Errorf("variadic")
	}
	cbase := func(p token.Pos) int { return sc.fset.Position(p).Offset }
	fbase := cbase
	// imports and package-level names must mean the same at the call site
	var capErr error
	check := func(n ast.Node) {
		selNames := map[*ast.Ident]bool{}
		ast.Inspect(n, func(x ast.Node) bool {
			if se, ok := x.(*ast.SelectorExpr); ok {
				if _, isSel := sc.calleeInfo.Selections[se]; isSel {
					selNames[se.Sel] = true
				}
			}
			return true
		})
		ast.Inspect(n, func(x ast.Node) bool {
			id, ok := x.(*ast.Ident)
			if !ok || capErr != nil || selNames[id] {
				return true
			}
			obj := sc.calleeInfo.Uses[id]
			if obj == nil {
				return true
			}
			inner := sc.callerPkg.Scope().Innermost(call.Pos())
			if inner == nil {
				capErr = fmt.Errorf("scope")
				return true
			}
			if pn, isPkgName := obj.(*types.PkgName); isPkgName {
				_, o := inner.LookupParent(id.Name, call.Pos())
				if cpn, isPN := o.(*types.PkgName); !isPN || cpn.Imported() != pn.Imported() {
					capErr = fmt.Errorf("import %s is not visible at the call site", id.Name)
				}
				return true
			}
			pkgLevel := obj.Parent() == types.Universe || (obj.Pkg() != nil && obj.Parent() == obj.Pkg().Scope())
			if !pkgLevel && sc.closure && (obj.Pos() < fd.Type.Pos() || obj.Pos() > fd.Body.End()) {
				if _, o := inner.LookupParent(id.Name, call.Pos()); o != obj {
					capErr = fmt.Errorf("captured variable %s is shadowed at the call site", id.Name)
				}
				return true
			}
			if !pkgLevel || (obj.Pkg() != nil && obj.Pkg() != sc.callerPkg) {
				return true
			}
			if _, o := inner.LookupParent(id.Name, call.Pos()); o != obj {
				capErr = fmt.Errorf("%s is shadowed at the call site", id.Name)
			}
			return true
		})
	}
	check(fd.Body)
	check(fd.Type)
	if capErr != nil {
		return nil, capErr
	}
	params := string(sc.calleeSrc[fbase(fd.Type.Params.Opening)+1 : fbase(fd.Type.Params.Closing)])
	var args []string
	for _, a := range call.Args {
		args = append(args, string(sc.callerSrc[cbase(a.Pos()):cbase(a.End())]))
	}
	if fd.Recv != nil && len(fd.Recv.List) == 1 {
		sel, ok := ast.Unparen(call.Fun).(*ast.SelectorExpr)
		if !ok {
			return nil, fmt.Errorf("method value call")
		}
		recvT := sig.Recv().Type()
		argT := sc.callerInfo.TypeOf(sel.X)
		rtext := string(sc.callerSrc[cbase(sel.X.Pos()):cbase(sel.X.End())])
		switch {
		case argT != nil && types.Identical(recvT, argT):
		case argT != nil && types.Identical(recvT, types.NewPointer(argT)):
			rtext = "&" + rtext
		default:
			return nil, fmt.Errorf("receiver conversion")
		}
		rname := "_"
		if len(fd.Recv.List[0].Names) == 1 {
			rname = fd.Recv.List[0].Names[0].Name
		}
		rtype := string(sc.calleeSrc[fbase(fd.Recv.List[0].Type.Pos()):fbase(fd.Recv.List[0].Type.End())])
		if strings.TrimSpace(params) == "" {
			params = rname + " " + rtype
		} else {
			params = rname + " " + rtype + ", " + params
		}
		args = append([]string{rtext}, args...)
	}
	results := ""
	if fd.Type.Results != nil {
		results = " " + string(sc.calleeSrc[fbase(fd.Type.Results.Pos()):fbase(fd.Type.Results.End())])
	}
	body := string(sc.calleeSrc[fbase(fd.Body.Lbrace) : fbase(fd.Body.Rbrace)+1])
	repl := "func(" + params + ")" + results + " " + body + "(" + strings.Join(args, ", ") + ")"
	from, to := cbase(call.Pos()), cbase(call.End())
	return []byte(string(sc.callerSrc[:from]) + repl + string(sc.callerSrc[to:])), nil
}
